package main

// Harness API (verif*) and the virtual clock / timers.

import (
	"fmt"
	"go/token"
	"go/types"
	"strings"

	"golang.org/x/tools/go/ssa"
)

const (
	tokLSS = token.LSS
	tokGTR = token.GTR
)

var verifAPI map[string]intrinsic

func argStr(v value) string {
	if s, ok := v.(string); ok {
		return s
	}
	return "?"
}

func (m *machine) argInt(v value, what string) int64 {
	s := v.(sc)
	if s.t != nil {
		return signExt(m.concretizeTerm(s.t, what), 64)
	}
	return signExt(s.c, 64)
}

func (m *machine) freshBytes(tag string, n int) slicev {
	a := m.newArr(n, "verifBytes:"+tag)
	for i := 0; i < n; i++ {
		a.elems[i] = sc{t: m.freshSym(fmt.Sprintf("%s_%d", tag, i), 8)}
	}
	return slicev{arr: a, len: n, cap: n}
}

func init() {
	verifAPI = map[string]intrinsic{
		"verifByte": func(th *thread, caller *frame, fn *ssa.Function, args []value, site ssa.Instruction) value {
			return sc{t: th.m.freshSym(argStr(args[0]), 8)}
		},
		"verifU16": func(th *thread, caller *frame, fn *ssa.Function, args []value, site ssa.Instruction) value {
			return sc{t: th.m.freshSym(argStr(args[0]), 16)}
		},
		"verifU32": func(th *thread, caller *frame, fn *ssa.Function, args []value, site ssa.Instruction) value {
			return sc{t: th.m.freshSym(argStr(args[0]), 32)}
		},
		"verifU64": func(th *thread, caller *frame, fn *ssa.Function, args []value, site ssa.Instruction) value {
			return sc{t: th.m.freshSym(argStr(args[0]), 64)}
		},
		"verifBool": func(th *thread, caller *frame, fn *ssa.Function, args []value, site ssa.Instruction) value {
			return sc{t: th.m.freshSym(argStr(args[0]), 0)}
		},
		// verifInt(tag, lo, hi): symbolic int in [lo,hi] (kept symbolic)
		"verifInt": func(th *thread, caller *frame, fn *ssa.Function, args []value, site ssa.Instruction) value {
			m := th.m
			t := m.freshSym(argStr(args[0]), 64)
			lo, hi := m.toTerm(args[1].(sc), 64), m.toTerm(args[2].(sc), 64)
			m.assume(m.tb.and(m.tb.cmp(opSle, lo, t), m.tb.cmp(opSle, t, hi)))
			return sc{t: t}
		},
		// verifChoose(tag, n): concretised choice 0..n-1 (one path per value)
		"verifChoose": func(th *thread, caller *frame, fn *ssa.Function, args []value, site ssa.Instruction) value {
			m := th.m
			n := int(m.argInt(args[1], "verifChoose-n"))
			k := m.choose(n, "verifChoose:"+argStr(args[0]))
			// record as an input for native replay
			s := &symInfo{Name: fmt.Sprintf("c%d_%s", len(m.syms), sanitize(argStr(args[0]))), Tag: argStr(args[0]), W: 64}
			m.syms = append(m.syms, s)
			m.chosen[s.Name] = uint64(k)
			return mkInt(uint64(k))
		},
		// verifConc(x): case-split x into concrete values
		"verifConc": func(th *thread, caller *frame, fn *ssa.Function, args []value, site ssa.Instruction) value {
			m := th.m
			s := args[0].(sc)
			if s.t == nil {
				return s
			}
			return mkInt(m.concretizeTerm(s.t, "verifConc"))
		},
		"verifBytes": func(th *thread, caller *frame, fn *ssa.Function, args []value, site ssa.Instruction) value {
			m := th.m
			n := int(m.argInt(args[1], "verifBytes-n"))
			if n == 0 {
				a := m.newArr(0, "verifBytes")
				return slicev{arr: a}
			}
			return m.freshBytes(argStr(args[0]), n)
		},
		"verifAssume": func(th *thread, caller *frame, fn *ssa.Function, args []value, site ssa.Instruction) value {
			m := th.m
			c := args[0].(sc)
			m.assume(m.toTerm(c, 0))
			return nil
		},
		"verifAssert": func(th *thread, caller *frame, fn *ssa.Function, args []value, site ssa.Instruction) value {
			th.m.assertCond(args[0].(sc), argStr(args[1]), "")
			return nil
		},
		"verifAssertD": func(th *thread, caller *frame, fn *ssa.Function, args []value, site ssa.Instruction) value {
			th.m.assertCond(args[0].(sc), argStr(args[1]), argStr(args[2]))
			return nil
		},
		"verifFail": func(th *thread, caller *frame, fn *ssa.Function, args []value, site ssa.Instruction) value {
			th.m.assertCond(sc{c: 0}, argStr(args[0]), argStr(args[1]))
			return nil
		},
		"verifReach": func(th *thread, caller *frame, fn *ssa.Function, args []value, site ssa.Instruction) value {
			th.m.reached[argStr(args[0])] = true
			return nil
		},
		"verifBound": func(th *thread, caller *frame, fn *ssa.Function, args []value, site ssa.Instruction) value {
			m := th.m
			m.bounds[argStr(args[0])] = m.argInt(args[1], "verifBound")
			return nil
		},
		"verifNote": func(th *thread, caller *frame, fn *ssa.Function, args []value, site ssa.Instruction) value {
			th.m.note(argStr(args[0]))
			return nil
		},
		"verifNoteInt": func(th *thread, caller *frame, fn *ssa.Function, args []value, site ssa.Instruction) value {
			m := th.m
			s := args[1].(sc)
			if s.t == nil {
				m.note(fmt.Sprintf("%s=%d", argStr(args[0]), signExt(s.c, 64)))
			} else {
				m.note(fmt.Sprintf("%s=%d(model)", argStr(args[0]), signExt(m.evalUnderModel(s.t), 64)))
			}
			return nil
		},
		"verifNativeOverlap": func(th *thread, caller *frame, fn *ssa.Function, args []value, site ssa.Instruction) value {
			return mkBool(false)
		},
		"verifCallerName": func(th *thread, caller *frame, fn *ssa.Function, args []value, site ssa.Instruction) value {
			for fr := th.fr; fr != nil; fr = fr.caller {
				n := fr.fn.String()
				if strings.Contains(n, "verif") || strings.Contains(n, "/mempool.") || strings.Contains(n, "/mempool)") {
					continue
				}
				// short form: pkg.Func or (*pkg.T).M$1 ...
				if i := strings.LastIndex(n, "/"); i >= 0 {
					n = n[i+1:]
				}
				n = strings.NewReplacer("(", "", ")", "", "*", "").Replace(n)
				return n
			}
			return "?"
		},
		"verifTier": func(th *thread, caller *frame, fn *ssa.Function, args []value, site ssa.Instruction) value {
			return mkInt(uint64(th.m.tier))
		},
		"verifIsSymbolic": func(th *thread, caller *frame, fn *ssa.Function, args []value, site ssa.Instruction) value {
			s, ok := args[0].(sc)
			return mkBool(ok && s.t != nil)
		},
		"verifPanicCount": func(th *thread, caller *frame, fn *ssa.Function, args []value, site ssa.Instruction) value {
			return mkInt(uint64(len(th.m.panicLog)))
		},
		"verifLastPanic": func(th *thread, caller *frame, fn *ssa.Function, args []value, site ssa.Instruction) value {
			m := th.m
			if len(m.panicLog) == 0 {
				return ""
			}
			return m.panicLog[len(m.panicLog)-1]
		},
		// pooled-buffer ownership
		"verifPoison": func(th *thread, caller *frame, fn *ssa.Function, args []value, site ssa.Instruction) value {
			if s, ok := args[0].(slicev); ok && s.arr != nil {
				if s.arr.poisoned {
					th.m.violation("double-free", fmt.Sprintf("buffer obj%d freed twice at %s", s.arr.id, th.m.stackAbove()))
				}
				s.arr.poisoned = true
				s.arr.what = "freed at " + th.m.stackAbove()
			}
			return nil
		},
		"verifUnpoison": func(th *thread, caller *frame, fn *ssa.Function, args []value, site ssa.Instruction) value {
			if s, ok := args[0].(slicev); ok && s.arr != nil {
				s.arr.poisoned = false
			}
			return nil
		},
		"verifIsPoisoned": func(th *thread, caller *frame, fn *ssa.Function, args []value, site ssa.Instruction) value {
			if s, ok := args[0].(slicev); ok && s.arr != nil {
				return mkBool(s.arr.poisoned)
			}
			return mkBool(false)
		},
		// verifBufID returns the identity of the backing array (0 for nil) and verifBufOff the offset
		"verifBufID": func(th *thread, caller *frame, fn *ssa.Function, args []value, site ssa.Instruction) value {
			if s, ok := args[0].(slicev); ok && s.arr != nil {
				return mkInt(uint64(s.arr.id))
			}
			return mkInt(0)
		},
		"verifBufOff": func(th *thread, caller *frame, fn *ssa.Function, args []value, site ssa.Instruction) value {
			if s, ok := args[0].(slicev); ok && s.arr != nil {
				return mkInt(uint64(s.off))
			}
			return mkInt(0)
		},
		"verifPoolMode": func(th *thread, caller *frame, fn *ssa.Function, args []value, site ssa.Instruction) value {
			th.m.poolMode = int(th.m.argInt(args[0], "poolmode"))
			return nil
		},
		"verifMapRotate": func(th *thread, caller *frame, fn *ssa.Function, args []value, site ssa.Instruction) value {
			th.m.mapRotate = int(th.m.argInt(args[0], "maprotate"))
			return nil
		},
		"verifStepBudget": func(th *thread, caller *frame, fn *ssa.Function, args []value, site ssa.Instruction) value {
			th.m.maxSteps = th.m.steps + int(th.m.argInt(args[0], "budget"))
			th.m.hangCheck = true
			return nil
		},
		"verifStepBudgetEnd": func(th *thread, caller *frame, fn *ssa.Function, args []value, site ssa.Instruction) value {
			th.m.maxSteps = th.m.world.cfg.maxSteps
			th.m.hangCheck = false
			return nil
		},
		"verifSteps": func(th *thread, caller *frame, fn *ssa.Function, args []value, site ssa.Instruction) value {
			return mkInt(uint64(th.m.steps))
		},
		// byte-slice equality as one term (no forking)
		"verifEqBytes": func(th *thread, caller *frame, fn *ssa.Function, args []value, site ssa.Instruction) value {
			return th.m.bytesEqual(args[0].(slicev), args[1].(slicev))
		},
		"verifEqString": func(th *thread, caller *frame, fn *ssa.Function, args []value, site ssa.Instruction) value {
			return th.m.equals(nil, args[0], args[1])
		},
		// verifIte(c, a, b int) int without forking
		"verifIte": func(th *thread, caller *frame, fn *ssa.Function, args []value, site ssa.Instruction) value {
			return th.m.iteVal(args[0].(sc), args[1], args[2], types.Typ[types.Int])
		},
		"verifAnd": func(th *thread, caller *frame, fn *ssa.Function, args []value, site ssa.Instruction) value {
			m := th.m
			return m.fromTerm(m.tb.and(m.toTerm(args[0].(sc), 0), m.toTerm(args[1].(sc), 0)))
		},
		"verifOr": func(th *thread, caller *frame, fn *ssa.Function, args []value, site ssa.Instruction) value {
			m := th.m
			return m.fromTerm(m.tb.or(m.toTerm(args[0].(sc), 0), m.toTerm(args[1].(sc), 0)))
		},
		"verifImplies": func(th *thread, caller *frame, fn *ssa.Function, args []value, site ssa.Instruction) value {
			m := th.m
			return m.fromTerm(m.tb.or(m.tb.not(m.toTerm(args[0].(sc), 0)), m.toTerm(args[1].(sc), 0)))
		},
		// threads
		"verifGo": func(th *thread, caller *frame, fn *ssa.Function, args []value, site ssa.Instruction) value {
			th.spawn(args[0], nil, site)
			return nil
		},
		"verifYield": func(th *thread, caller *frame, fn *ssa.Function, args []value, site ssa.Instruction) value {
			th.yield("verifYield")
			return nil
		},
		"verifSched": func(th *thread, caller *frame, fn *ssa.Function, args []value, site ssa.Instruction) value {
			m := th.m
			m.exploreSched = args[0].(sc).c != 0
			m.maxPreempt = int(m.argInt(args[1], "preempt"))
			return nil
		},
		// verifJoin blocks until every other thread is done or blocked; returns
		// the number of threads still blocked.
		"verifJoin": func(th *thread, caller *frame, fn *ssa.Function, args []value, site ssa.Instruction) value {
			m := th.m
			th.block("verifJoin", func() bool {
				for _, t := range m.threads {
					if t == th || t.done {
						continue
					}
					if t.canRun == nil || t.canRun() {
						return false
					}
				}
				return true
			})
			n := 0
			for _, t := range m.threads {
				if t != th && !t.done {
					n++
				}
			}
			return mkInt(uint64(n))
		},
		"verifBlockedOn": func(th *thread, caller *frame, fn *ssa.Function, args []value, site ssa.Instruction) value {
			m := th.m
			var s []string
			for _, t := range m.threads {
				if t != th && !t.done {
					s = append(s, fmt.Sprintf("t%d:%s", t.id, t.blockedOn))
				}
			}
			return strings.Join(s, ",")
		},
		"verifAtomicBegin": func(th *thread, caller *frame, fn *ssa.Function, args []value, site ssa.Instruction) value {
			th.m.atomicDepth++
			return nil
		},
		"verifAtomicEnd": func(th *thread, caller *frame, fn *ssa.Function, args []value, site ssa.Instruction) value {
			th.m.atomicDepth--
			return nil
		},
		"verifThreadID": func(th *thread, caller *frame, fn *ssa.Function, args []value, site ssa.Instruction) value {
			return mkInt(uint64(th.id))
		},
		// verifBlockUntil(f func() bool): park until f() holds (f is evaluated by
		// the scheduler on the blocked thread's behalf; it must be side-effect free)
		"verifBlockUntil": func(th *thread, caller *frame, fn *ssa.Function, args []value, site ssa.Instruction) value {
			m := th.m
			f := args[0]
			pred := func() bool {
				saved := m.cur
				savedFr := th.fr
				m.atomicDepth++
				r := th.call(caller, f, nil, site).(sc)
				m.atomicDepth--
				th.fr = savedFr
				m.cur = saved
				if r.t != nil {
					panic(pathEnd{kind: endUnsupported, msg: "symbolic verifBlockUntil predicate"})
				}
				return r.c != 0
			}
			th.yield("blockuntil")
			th.block("verifBlockUntil", pred)
			return nil
		},
		// virtual clock / timers
		// verifRacyFields("a,b,c"): accesses to struct fields with these names in
		// library code become scheduling points (fields the library reads or
		// writes without holding the lock that protects them elsewhere)
		"verifRacyFields": func(th *thread, caller *frame, fn *ssa.Function, args []value, site ssa.Instruction) value {
			m := th.m
			m.racy = map[string]bool{}
			for _, f := range strings.Split(argStr(args[0]), ",") {
				if f = strings.TrimSpace(f); f != "" {
					m.racy[f] = true
				}
			}
			return nil
		},
		"verifTimerCount": func(th *thread, caller *frame, fn *ssa.Function, args []value, site ssa.Instruction) value {
			return mkInt(uint64(len(th.m.timers)))
		},
		"verifTimerArmed": func(th *thread, caller *frame, fn *ssa.Function, args []value, site ssa.Instruction) value {
			m := th.m
			i := int(m.argInt(args[0], "timer"))
			return mkBool(i < len(m.timers) && m.timers[i].armed)
		},
		"verifTimerDeadline": func(th *thread, caller *frame, fn *ssa.Function, args []value, site ssa.Instruction) value {
			m := th.m
			i := int(m.argInt(args[0], "timer"))
			return m.fromTerm(m.timers[i].deadline)
		},
		// verifFireTimer(i): advance the clock to >= deadline and run the callback inline
		"verifFireTimer": func(th *thread, caller *frame, fn *ssa.Function, args []value, site ssa.Instruction) value {
			m := th.m
			i := int(m.argInt(args[0], "timer"))
			if i >= len(m.timers) || !m.timers[i].armed {
				return mkBool(false)
			}
			tm := m.timers[i]
			tm.armed = false
			tm.fired++
			// the clock is at or after the deadline when the runtime fires
			now := m.advanceClock()
			m.assume(m.tb.cmp(opSle, tm.deadline, now))
			if tm.fn != nil {
				th.call(caller, tm.fn, nil, site)
			}
			return mkBool(true)
		},
		"verifNow": func(th *thread, caller *frame, fn *ssa.Function, args []value, site ssa.Instruction) value {
			m := th.m
			return m.fromTerm(m.clockNow())
		},
		"verifAdvanceClock": func(th *thread, caller *frame, fn *ssa.Function, args []value, site ssa.Instruction) value {
			m := th.m
			return m.fromTerm(m.advanceClock())
		},
	}
}

// stackAbove names the nearest non-allocator frames (for diagnostics).
func (m *machine) stackAbove() string {
	th := m.cur
	if th == nil {
		return "?"
	}
	var parts []string
	for fr := th.fr; fr != nil && len(parts) < 3; fr = fr.caller {
		n := fr.fn.String()
		if strings.Contains(n, "mempool") || strings.Contains(n, "verif") {
			continue
		}
		parts = append(parts, n)
	}
	return strings.Join(parts, " <- ")
}

// assertCond checks an assertion: a violation is recorded if its negation is
// feasible; the path continues under the assumption that it holds.
func (m *machine) assertCond(c sc, label, discr string) {
	m.res.mu.Lock()
	m.res.asserts++
	if c.t != nil {
		m.res.assertsSym++
	}
	m.res.mu.Unlock()
	if c.t == nil {
		if c.c != 0 {
			return
		}
		if label == "witness" {
			m.reached["witness"] = true
			panic(pathEnd{kind: endDone})
		}
		m.violationWith(label, discr, "assertion failed (concrete) at "+m.curPos(), m.model)
		return
	}
	if m.inPrefix() {
		m.sol.assert(c.t)
		return
	}
	neg := m.tb.not(c.t)
	if m.evalUnderModel(c.t) == 0 {
		// current model is already a counterexample
		m.recordViolation(label, discr, "assertion failed at "+m.curPos(), m.model)
		// continue with the assertion assumed, if feasible
		m.assume(c.t)
		return
	}
	res, mdl := m.sol.check(neg, true)
	switch res {
	case resSat:
		if mdl == nil {
			panic(pathEnd{kind: endInconclusive, msg: "no model for failed assertion " + label})
		}
		m.recordViolation(label, discr, "assertion failed at "+m.curPos(), mdl)
	case resUnknown:
		panic(pathEnd{kind: endInconclusive, msg: "assertion " + label + " undecided at " + m.curPos()})
	}
	m.sol.assert(c.t)
}

func (m *machine) recordViolation(label, discr, msg string, mdl model) {
	func() {
		defer func() {
			if r := recover(); r != nil {
				if pe, ok := r.(pathEnd); ok && pe.kind == endViolation {
					return
				}
				panic(r)
			}
		}()
		m.violationWith(label, discr, msg, mdl)
	}()
	m.hadViolation = true
}

// ---------------------------------------------------------------------------
// virtual clock

type vtimer struct {
	deadline *term
	fn       value
	armed    bool
	fired    int
	slot     *value
}

const clockBase = uint64(1) << 40

func (m *machine) resetEnvModels() {
	m.timers = nil
	m.now = nil
	m.nowCount = 0
	m.wraps = map[*extErr]*wrapErr{}
	m.chosen = map[string]uint64{}
	m.poolMode = poolLIFO
	m.hadViolation = false
	if m.uninit == nil {
		m.uninit = map[*value]string{}
	}
}

func (m *machine) clockNow() *term {
	if m.now == nil {
		m.now = m.tb.constBV(clockBase, 64)
	}
	return m.now
}

// advanceClock returns a fresh instant >= the previous one.
func (m *machine) advanceClock() *term {
	prev := m.clockNow()
	t := m.freshSym(fmt.Sprintf("now%d", m.nowCount), 64)
	m.nowCount++
	tb := m.tb
	m.assume(tb.and(tb.cmp(opSle, prev, t), tb.cmp(opSle, t, tb.constBV(clockBase<<4, 64))))
	m.now = t
	return t
}

func (m *machine) mkTime(ns *term) value {
	return structv{mkInt(0), m.fromTerm(ns), ptr{}}
}

func timeNs(m *machine, v value) *term {
	s := v.(structv)
	return m.toTerm(s[1].(sc), 64)
}

func (m *machine) timeIntrinsic(th *thread, fn *ssa.Function, args []value, site ssa.Instruction) (value, bool) {
	tb := m.tb
	name := fn.String()
	switch name {
	case "time.Now":
		return m.mkTime(m.advanceClock()), true
	case "time.Since":
		return m.fromTerm(tb.bin(opSub, m.advanceClock(), timeNs(m, args[0]))), true
	case "time.Until":
		return m.fromTerm(tb.bin(opSub, timeNs(m, args[0]), m.advanceClock())), true
	case "(time.Time).Add":
		return m.mkTime(tb.bin(opAdd, timeNs(m, args[0]), m.toTerm(args[1].(sc), 64))), true
	case "(time.Time).Sub":
		return m.fromTerm(tb.bin(opSub, timeNs(m, args[0]), timeNs(m, args[1]))), true
	case "(time.Time).After":
		return m.fromTerm(tb.cmp(opSlt, timeNs(m, args[1]), timeNs(m, args[0]))), true
	case "(time.Time).Before":
		return m.fromTerm(tb.cmp(opSlt, timeNs(m, args[0]), timeNs(m, args[1]))), true
	case "(time.Time).Equal":
		return m.fromTerm(tb.eq(timeNs(m, args[0]), timeNs(m, args[1]))), true
	case "(time.Time).IsZero":
		return m.fromTerm(tb.eq(timeNs(m, args[0]), tb.constBV(0, 64))), true
	case "(time.Time).UnixNano", "(time.Time).Unix", "(time.Time).UnixMilli":
		return m.fromTerm(timeNs(m, args[0])), true
	case "(time.Time).UTC", "(time.Time).Local", "(time.Time).Round", "(time.Time).Truncate":
		return args[0], true
	case "(time.Time).Date":
		return tuple{mkInt(2006), mkInt(1), mkInt(2)}, true
	case "(time.Time).Clock":
		return tuple{mkInt(15), mkInt(4), mkInt(5)}, true
	case "(time.Time).Weekday":
		return mkInt(1), true
	case "(time.Time).Year":
		return mkInt(2006), true
	case "(time.Time).Format":
		return "Mon, 02 Jan 2006 15:04:05 GMT", true
	case "(time.Time).AppendFormat":
		return m.appendSlice(nil2builtin, []value{args[1], "Mon, 02 Jan 2006 15:04:05 GMT"}), true
	case "(time.Duration).String":
		return "duration", true
	case "(time.Duration).Seconds", "(time.Duration).Minutes", "(time.Duration).Hours":
		return float64(0), true
	case "(time.Duration).Milliseconds", "(time.Duration).Microseconds", "(time.Duration).Nanoseconds":
		return args[0], true
	case "time.Sleep":
		m.advanceClock()
		th.yield("sleep")
		return nil, true
	case "time.AfterFunc":
		d := m.toTerm(args[0].(sc), 64)
		now := m.advanceClock()
		tt := deref(fn.Signature.Results().At(0).Type())
		sp := new(value)
		*sp = m.zero(tt)
		tm := &vtimer{deadline: tb.bin(opAdd, now, d), fn: args[1], armed: true, slot: sp}
		m.timers = append(m.timers, tm)
		return ptr{slot: sp, own: m.newObj("timer")}, true
	case "(*time.Timer).Stop":
		p := args[0].(ptr)
		if p.slot == nil {
			m.goPanic("time: Stop called on uninitialized Timer (nil)")
		}
		for _, tm := range m.timers {
			if tm.slot == p.slot {
				was := tm.armed
				tm.armed = false
				th.yield("timer-stop")
				return mkBool(was), true
			}
		}
		m.goPanic("time: Stop called on uninitialized Timer")
	case "(*time.Timer).Reset":
		p := args[0].(ptr)
		if p.slot == nil {
			m.goPanic("time: Reset called on uninitialized Timer (nil)")
		}
		for _, tm := range m.timers {
			if tm.slot == p.slot {
				was := tm.armed
				now := m.advanceClock()
				tm.deadline = tb.bin(opAdd, now, m.toTerm(args[1].(sc), 64))
				tm.armed = true
				th.yield("timer-reset")
				return mkBool(was), true
			}
		}
		m.goPanic("time: Reset called on uninitialized Timer")
	}
	return nil, false
}

var nil2builtin *ssa.Builtin

package main

// solver-diff: re-run a logged query transcript (gosym check --log-queries) on
// another solver and compare every check-sat answer with the recorded one.

import (
	"bufio"
	"fmt"
	"os"
	"os/exec"
	"strings"
)

func cmdSolverDiff(args []string) int {
	if len(args) < 2 {
		fmt.Fprintln(os.Stderr, "usage: gosym solver-diff <transcript.smt2> <solver: z3-new|cvc5|z3> [max-queries]")
		return 2
	}
	file, bin := args[0], args[1]
	maxQ := 0
	if len(args) > 2 {
		fmt.Sscan(args[2], &maxQ)
	}
	f, err := os.Open(file)
	if err != nil {
		fmt.Fprintln(os.Stderr, err)
		return 2
	}
	defer f.Close()
	isCvc := strings.Contains(bin, "cvc5")
	var script strings.Builder
	var recorded []string
	sc := bufio.NewScanner(f)
	sc.Buffer(make([]byte, 1<<20), 1<<26)
	if isCvc {
		script.WriteString("(set-option :produce-models true)\n(set-logic QF_BV)\n")
	}
	nq := 0
	for sc.Scan() {
		line := sc.Text()
		switch {
		case strings.HasPrefix(line, "; RESULT "):
			recorded = append(recorded, strings.TrimPrefix(line, "; RESULT "))
			nq++
			if maxQ > 0 && nq >= maxQ {
				goto done
			}
			continue
		case strings.HasPrefix(line, "(get-value"):
			continue // model values may legitimately differ
		case strings.HasPrefix(line, "(set-option :timeout"):
			continue
		case strings.HasPrefix(line, "(set-option :produce-models") && isCvc:
			continue
		case line == "(reset)" && isCvc:
			script.WriteString("(reset)\n(set-option :produce-models true)\n(set-logic QF_BV)\n")
			continue
		case strings.HasPrefix(line, "(echo"):
			continue
		}
		script.WriteString(line)
		script.WriteByte('\n')
	}
done:
	var cmd *exec.Cmd
	if isCvc {
		cmd = exec.Command(bin, "--incremental", "--lang", "smt2")
	} else {
		cmd = exec.Command(bin, "-in")
	}
	cmd.Stdin = strings.NewReader(script.String())
	out, err := cmd.CombinedOutput()
	var answers []string
	nerr := 0
	for _, l := range strings.Split(string(out), "\n") {
		l = strings.TrimSpace(l)
		switch l {
		case "sat", "unsat", "unknown":
			answers = append(answers, l)
		default:
			if strings.HasPrefix(l, "(error") {
				nerr++
				if nerr <= 3 {
					fmt.Fprintln(os.Stderr, "solver-diff:", l)
				}
			}
		}
	}
	if len(answers) < len(recorded) {
		fmt.Fprintf(os.Stderr, "solver-diff: %s answered %d of %d queries (err=%v)\n", bin, len(answers), len(recorded), err)
		recorded = recorded[:len(answers)]
	}
	dis, skipped := 0, 0
	for i := range recorded {
		if recorded[i] == "unknown" || answers[i] == "unknown" {
			skipped++
			continue
		}
		if recorded[i] != answers[i] {
			dis++
			if dis <= 5 {
				fmt.Printf("DISAGREEMENT query #%d: z3-4.8.12=%s %s=%s\n", i, recorded[i], bin, answers[i])
			}
		}
	}
	fmt.Printf("solver-diff: %d queries compared with %s, %d disagreements, %d skipped (unknown), %d solver errors\n", len(recorded)-skipped, bin, dis, skipped, nerr)
	if dis > 0 || nerr > 0 {
		return 1
	}
	return 0
}

package main

// Value model (after x/tools/go/ssa/interp, extended with symbolic scalars).
//
//   sc        bool / intN / uintN / uintptr: concrete bits or a term
//   float64   floats (concrete only)
//   string | *symstr   strings (concrete, or with symbolic bytes; length concrete)
//   ptr       pointer to a value slot (with owner object for poison/journal)
//   slicev    (array object, off, len, cap)
//   *arrobj   array value (copied on load/store)
//   structv   struct value (copied on load/store)
//   iface     (dynamic type, value)
//   *closure, *ssa.Function, *ssa.Builtin   function values
//   *mapv, *chanv, tuple

import (
	"fmt"
	"go/types"
	"strings"

	"golang.org/x/tools/go/ssa"
)

type value interface{}

type sc struct {
	t *term  // nil => concrete
	c uint64 // concrete bits, truncated to the static width; bool: 0/1
}

type symstr struct{ b []value } // each element an sc of width 8

// obj identifies one allocation.
type obj struct {
	id       int
	epoch    int // path epoch in which it was created (0 = init time)
	poisoned bool
	what     string
	stored   bool // written during package initialisation
	uninit   bool // global whose initialiser did not (fully) run
	lazyG    *ssa.Global // set with uninit: the global, for initialisation on first read
}

type arrobj struct {
	obj
	elems []value
}

type ptr struct {
	slot *value
	own  *obj
	arr  *arrobj // non-nil for element pointers
	idx  int     // element index within arr
	// symbolic element pointer: slot==nil, arr!=nil, sidx!=nil; valid index
	// range is [lo, hi) within arr and the concrete index is lo+sidx.
	sidx   *term
	lo, hi int
	tok    interface{} // opaque token for unsafe puns (string data etc.)
}

func (p ptr) isNil() bool { return p.slot == nil && p.sidx == nil && p.tok == nil }

type slicev struct {
	arr           *arrobj
	off, len, cap int
}

type structv []value

type iface struct {
	t types.Type
	v value
}

type tuple []value

type closure struct {
	fn  *ssa.Function
	env []value
}

type mapEntry struct {
	k, v value
	del  bool
}

type mapv struct {
	obj
	kt      types.Type
	entries []*mapEntry
	index   map[interface{}]*mapEntry // concrete-key fast path (nil once a symbolic key is present)
	n       int
	jEpoch  int // epoch in which a journal snapshot was taken
}

type chanItem struct {
	v    value
	done bool
}

type chanv struct {
	obj
	cap    int
	buf    []value
	sendq  []*chanItem // blocked senders (unbuffered or full)
	waiters []*recvWaiter // receivers blocked on an unbuffered channel
	closed bool
	jEpoch int
}

// bad marks a destroyed local.
type bad struct{}

// poisonVal is the value of something the engine could not compute (only
// during best-effort package initialisation).
type poisonVal struct{ why string }

// ---------------------------------------------------------------------------

var smallInts [512]value

func init() {
	for i := range smallInts {
		smallInts[i] = sc{c: uint64(i)}
	}
}

func mkInt(c uint64) value {
	if c < uint64(len(smallInts)) {
		return smallInts[c]
	}
	return sc{c: c}
}

func mkBool(b bool) value {
	if b {
		return smallInts[1]
	}
	return smallInts[0]
}

// widthOf returns bit width and signedness for an integer/bool basic type.
func widthOf(t types.Type) (w int, signed bool) {
	b, ok := t.Underlying().(*types.Basic)
	if !ok {
		panic(fmt.Sprintf("widthOf: not basic: %v", t))
	}
	switch b.Kind() {
	case types.Bool, types.UntypedBool:
		return 0, false
	case types.Int8:
		return 8, true
	case types.Int16:
		return 16, true
	case types.Int32, types.UntypedRune:
		return 32, true
	case types.Int64, types.Int, types.UntypedInt:
		return 64, true
	case types.Uint8:
		return 8, false
	case types.Uint16:
		return 16, false
	case types.Uint32:
		return 32, false
	case types.Uint64, types.Uint, types.Uintptr:
		return 64, false
	}
	panic(fmt.Sprintf("widthOf: unsupported basic %v", t))
}

func isIntegerType(t types.Type) bool {
	b, ok := t.Underlying().(*types.Basic)
	return ok && b.Info()&types.IsInteger != 0
}

func isStringType(t types.Type) bool {
	b, ok := t.Underlying().(*types.Basic)
	return ok && b.Info()&types.IsString != 0
}

func isFloatType(t types.Type) bool {
	b, ok := t.Underlying().(*types.Basic)
	return ok && b.Info()&types.IsFloat != 0
}

func isBoolType(t types.Type) bool {
	b, ok := t.Underlying().(*types.Basic)
	return ok && b.Info()&types.IsBoolean != 0
}

// ---------------------------------------------------------------------------
// strings

func strLen(v value) int {
	switch s := v.(type) {
	case string:
		return len(s)
	case *symstr:
		return len(s.b)
	}
	panic(fmt.Sprintf("strLen: %T", v))
}

func strBytes(v value) []value {
	switch s := v.(type) {
	case string:
		r := make([]value, len(s))
		for i := 0; i < len(s); i++ {
			r[i] = smallInts[s[i]]
		}
		return r
	case *symstr:
		return s.b
	}
	panic(fmt.Sprintf("strBytes: %T", v))
}

func mkStr(b []value) value {
	conc := true
	for _, x := range b {
		if x.(sc).t != nil {
			conc = false
			break
		}
	}
	if conc {
		var sb strings.Builder
		sb.Grow(len(b))
		for _, x := range b {
			sb.WriteByte(byte(x.(sc).c))
		}
		return sb.String()
	}
	cp := make([]value, len(b))
	copy(cp, b)
	return &symstr{cp}
}

// ---------------------------------------------------------------------------
// zero values and copying

func (m *machine) newObj(what string) *obj {
	m.nextObj++
	return &obj{id: m.nextObj, epoch: m.epoch, what: what}
}

func (m *machine) newArr(n int, what string) *arrobj {
	m.nextObj++
	return &arrobj{obj: obj{id: m.nextObj, epoch: m.epoch, what: what}, elems: make([]value, n)}
}

func (m *machine) zero(t types.Type) value {
	switch t := t.(type) {
	case *types.Basic:
		switch {
		case t.Kind() == types.UnsafePointer:
			return ptr{}
		case t.Kind() == types.UntypedNil:
			return nil
		case t.Info()&types.IsString != 0:
			return ""
		case t.Info()&types.IsFloat != 0:
			return float64(0)
		case t.Info()&types.IsComplex != 0:
			return complex128(0)
		default:
			return smallInts[0]
		}
	case *types.Pointer:
		return ptr{}
	case *types.Slice:
		return slicev{}
	case *types.Map:
		return (*mapv)(nil)
	case *types.Chan:
		return (*chanv)(nil)
	case *types.Signature:
		return nil
	case *types.Interface:
		return iface{}
	case *types.Struct:
		s := make(structv, t.NumFields())
		for i := range s {
			s[i] = m.zero(t.Field(i).Type())
		}
		return s
	case *types.Array:
		n := int(t.Len())
		a := m.newArr(n, "array")
		et := t.Elem()
		if n > 0 {
			z := m.zero(et)
			switch z.(type) {
			case structv, *arrobj:
				a.elems[0] = z
				for i := 1; i < n; i++ {
					a.elems[i] = m.zero(et)
				}
			default:
				for i := range a.elems {
					a.elems[i] = z
				}
			}
		}
		return a
	case *types.Named:
		return m.zero(t.Underlying())
	case *types.Alias:
		return m.zero(types.Unalias(t))
	case *types.Tuple:
		if t.Len() == 1 {
			return m.zero(t.At(0).Type())
		}
		r := make(tuple, t.Len())
		for i := range r {
			r[i] = m.zero(t.At(i).Type())
		}
		return r
	case *types.TypeParam:
		panic(engineError{"zero of type parameter " + t.String()})
	}
	panic(engineError{fmt.Sprintf("zero: unexpected type %T %v", t, t)})
}

// copyVal copies aggregate values (value semantics).
func (m *machine) copyVal(v value) value {
	switch v := v.(type) {
	case structv:
		c := make(structv, len(v))
		for i, x := range v {
			c[i] = m.copyVal(x)
		}
		return c
	case *arrobj:
		c := m.newArr(len(v.elems), "array")
		for i, x := range v.elems {
			c.elems[i] = m.copyVal(x)
		}
		return c
	}
	return v
}

// ---------------------------------------------------------------------------
// printing (debug / samples)

func (m *machine) show(v value) string {
	return showDepth(v, 0)
}

func showDepth(v value, d int) string {
	if d > 3 {
		return "…"
	}
	switch v := v.(type) {
	case nil:
		return "nil"
	case sc:
		if v.t != nil {
			return v.t.String()
		}
		return fmt.Sprintf("%d", v.c)
	case string:
		if len(v) > 60 {
			return fmt.Sprintf("%q…", v[:60])
		}
		return fmt.Sprintf("%q", v)
	case *symstr:
		return fmt.Sprintf("symstr[%d]", len(v.b))
	case ptr:
		if v.isNil() {
			return "nilptr"
		}
		if v.own != nil {
			return fmt.Sprintf("&obj%d", v.own.id)
		}
		return "&?"
	case slicev:
		if v.arr == nil {
			return "nilslice"
		}
		return fmt.Sprintf("slice(obj%d,%d,%d,%d)", v.arr.id, v.off, v.len, v.cap)
	case structv:
		var sb strings.Builder
		sb.WriteString("{")
		for i, x := range v {
			if i > 0 {
				sb.WriteString(" ")
			}
			if i > 8 {
				sb.WriteString("…")
				break
			}
			sb.WriteString(showDepth(x, d+1))
		}
		sb.WriteString("}")
		return sb.String()
	case *arrobj:
		return fmt.Sprintf("array[%d]", len(v.elems))
	case iface:
		if v.t == nil {
			return "nil-iface"
		}
		return fmt.Sprintf("iface(%v:%s)", v.t, showDepth(v.v, d+1))
	case tuple:
		var sb strings.Builder
		sb.WriteString("(")
		for i, x := range v {
			if i > 0 {
				sb.WriteString(", ")
			}
			sb.WriteString(showDepth(x, d+1))
		}
		sb.WriteString(")")
		return sb.String()
	case *closure:
		return "closure:" + v.fn.String()
	case *ssa.Function:
		return "func:" + v.String()
	case *mapv:
		if v == nil {
			return "nilmap"
		}
		return fmt.Sprintf("map[%d]", v.n)
	case *chanv:
		return "chan"
	case float64:
		return fmt.Sprintf("%g", v)
	case poisonVal:
		return "poison(" + v.why + ")"
	}
	return fmt.Sprintf("%T", v)
}

package main

// Threads and the scheduler. Every interpreted goroutine runs on its own
// native goroutine; exactly one runs at a time (baton passing). Control changes
// hands only at visible operations (th.yield). When schedule exploration is on,
// the choice of the next thread is a decision of the path (explore.go).

import (
	"fmt"
	"go/types"

	"golang.org/x/tools/go/ssa"
)

const fairK = 40

type thread struct {
	id       int
	streak   int // consecutive visible operations without being descheduled
	m        *machine
	fr       *frame
	curInstr ssa.Instruction
	wake     chan struct{}
	done     bool
	started  bool
	// blocked: non-nil predicate that must become true before the thread can run
	canRun   func() bool
	blockedOn string
	daemon   bool // a blocked daemon thread does not count as deadlock
	name     string
	fn       value
	args     []value
	site     ssa.Instruction
	result   interface{} // recovered panic of the native goroutine
	ret      value       // return value of the thread's function
}

func (m *machine) newThread(fn value, args []value, site ssa.Instruction) *thread {
	th := &thread{id: len(m.threads), m: m, wake: make(chan struct{}, 1), fn: fn, args: args, site: site}
	m.threads = append(m.threads, th)
	return th
}

func (th *thread) spawn(fn value, args []value, site ssa.Instruction) {
	m := th.m
	if len(m.threads) >= m.maxThreads {
		panic(pathEnd{kind: endBoundExceeded, msg: fmt.Sprintf("thread bound %d exceeded", m.maxThreads)})
	}
	nt := m.newThread(fn, args, site)
	nt.name = showDepth(fn, 0)
	m.startThread(nt)
	th.yield("go")
}

// startThread launches the native goroutine, parked until first scheduled.
func (m *machine) startThread(nt *thread) {
	nt.started = true
	m.liveNative++
	go func() {
		<-nt.wake
		defer func() {
			r := recover()
			nt.done = true
			nt.result = r
			// hand control back
			m.threadExit <- nt
		}()
		if m.aborting {
			panic(pathEnd{kind: endAbortThread})
		}
		m.cur = nt
		nt.ret = nt.call(nil, nt.fn, nt.args, nt.site)
	}()
}

// enabled returns the threads that can run now.
func (m *machine) enabled() []*thread {
	var r []*thread
	for _, t := range m.threads {
		if t.done {
			continue
		}
		if t.canRun != nil && !t.canRun() {
			continue
		}
		r = append(r, t)
	}
	return r
}

// yield is a visible operation: the scheduler may switch threads here.
func (th *thread) yield(what string) {
	m := th.m
	if len(m.threads) == 1 && th.canRun == nil {
		return
	}
	if m.atomicDepth > 0 && th.canRun == nil {
		return
	}
	next := m.pickNext(th, what)
	if next == th {
		th.canRun = nil
		return
	}
	m.switchTo(th, next)
}

// block parks the thread until pred holds.
func (th *thread) block(what string, pred func() bool) {
	if pred() {
		return
	}
	th.canRun = pred
	th.blockedOn = what
	th.yield(what)
	th.canRun = nil
	th.blockedOn = ""
}

func (m *machine) switchTo(from, to *thread) {
	m.switches++
	to.wake <- struct{}{}
	<-from.wake
	if m.aborting {
		panic(pathEnd{kind: endAbortThread})
	}
	m.cur = from
}

// pickNext chooses the next thread to run at a visible operation of cur.
func (m *machine) pickNext(cur *thread, what string) *thread {
	en := m.enabled()
	if len(en) == 0 {
		// deadlock (or everything finished except blocked threads)
		m.deadlock(cur)
	}
	curEnabled := false
	for _, t := range en {
		if t == cur {
			curEnabled = true
		}
	}
	if !m.exploreSched {
		// deterministic: keep running cur while it can (with the same
		// fairness rule); else lowest id
		if curEnabled {
			if cur.streak >= fairK && len(en) > 1 {
				cur.streak = 0
				for _, t := range en {
					if t != cur {
						return t
					}
				}
			}
			cur.streak++
			return cur
		}
		return en[0]
	}
	if len(en) == 1 {
		return en[0]
	}
	// fairness: a thread that has executed fairK visible operations in a row
	// while others are enabled is descheduled (not counted as a preemption):
	// the real scheduler does not starve runnable goroutines for ever, and a
	// spinning thread would otherwise run to the step budget on every path
	if curEnabled && cur.streak >= fairK {
		var others []*thread
		for _, t := range en {
			if t != cur {
				others = append(others, t)
			}
		}
		cur.streak = 0
		k := 0
		if len(others) > 1 {
			k = m.chooseSym(len(others), "sched")
		}
		m.schedTrace = append(m.schedTrace, others[k].id)
		return others[k]
	}
	// candidates: cur first (no preemption) then the others
	var cands []*thread
	if curEnabled {
		cands = append(cands, cur)
		if m.preemptions >= m.maxPreempt {
			cur.streak++
			return cur
		}
	}
	for _, t := range en {
		if t != cur {
			cands = append(cands, t)
		}
	}
	if len(cands) == 1 {
		return cands[0]
	}
	k := m.chooseSym(len(cands), "sched")
	if curEnabled && k != 0 {
		m.preemptions++
		cur.streak = 0
	} else if curEnabled {
		cur.streak++
	}
	m.schedTrace = append(m.schedTrace, cands[k].id)
	return cands[k]
}

func (m *machine) deadlock(cur *thread) {
	desc := ""
	for _, t := range m.threads {
		if !t.done && t.canRun != nil {
			desc += fmt.Sprintf("t%d(%s) blocked on %s; ", t.id, t.name, t.blockedOn)
		}
	}
	m.deadlocked = true
	m.deadlockDesc = desc
	if m.onDeadlock != nil {
		m.onDeadlock(desc)
	}
	m.violation("deadlock", desc)
}

// threadFinished is called from the machine's main loop when a native
// goroutine exits; it picks the next thread.
func (m *machine) afterExit(t *thread) *thread {
	en := m.enabled()
	if len(en) == 0 {
		return nil
	}
	if !m.exploreSched || len(en) == 1 {
		return en[0]
	}
	k := m.chooseSym(len(en), "sched")
	m.schedTrace = append(m.schedTrace, en[k].id)
	return en[k]
}

// ---------------------------------------------------------------------------
// channels

func (m *machine) journalChan(c *chanv) {
	if m.epoch > 0 && c.epoch < m.epoch && c.jEpoch != m.epoch {
		c.jEpoch = m.epoch
		buf := append([]value(nil), c.buf...)
		closed := c.closed
		m.undo = append(m.undo, func() { c.buf = buf; c.closed = closed; c.sendq = nil })
	}
}

func (th *thread) chanSend(cv value, v value) {
	m := th.m
	c, _ := cv.(*chanv)
	if c == nil {
		th.block("send-nil-chan", func() bool { return false })
		return
	}
	m.journalChan(c)
	th.yield("chan-send")
	if c.closed {
		m.goPanic("send on closed channel")
	}
	if c.cap > 0 {
		th.block("chan-send-full", func() bool { return len(c.buf) < c.cap || c.closed })
		if c.closed {
			m.goPanic("send on closed channel")
		}
		c.buf = append(c.buf, v)
		return
	}
	it := &chanItem{v: v}
	c.sendq = append(c.sendq, it)
	th.block("chan-send-unbuffered", func() bool { return it.done || c.closed })
	if !it.done && c.closed {
		m.goPanic("send on closed channel")
	}
}

type recvWaiter struct{}

func (c *chanv) dropWaiter(w *recvWaiter) {
	for i, x := range c.waiters {
		if x == w {
			c.waiters = append(c.waiters[:i:i], c.waiters[i+1:]...)
			return
		}
	}
}

func (c *chanv) recvReady() bool {
	return len(c.buf) > 0 || len(c.sendq) > 0 || c.closed
}

func (c *chanv) takeRecv() (value, bool) {
	if len(c.buf) > 0 {
		v := c.buf[0]
		c.buf = c.buf[1:]
		return v, true
	}
	if len(c.sendq) > 0 {
		it := c.sendq[0]
		c.sendq = c.sendq[1:]
		it.done = true
		return it.v, true
	}
	return nil, false
}

func (th *thread) chanRecv(cv value, commaOk bool, T types.Type) value {
	m := th.m
	c, _ := cv.(*chanv)
	if c == nil {
		th.block("recv-nil-chan", func() bool { return false })
		return nil
	}
	m.journalChan(c)
	th.yield("chan-recv")
	if !c.recvReady() {
		w := &recvWaiter{}
		c.waiters = append(c.waiters, w)
		th.block("chan-recv", c.recvReady)
		c.dropWaiter(w)
	}
	v, ok := c.takeRecv()
	if !ok {
		// closed
		var et types.Type
		if commaOk {
			et = T.(*types.Tuple).At(0).Type()
		} else {
			et = T
		}
		v = m.zero(et)
	}
	if commaOk {
		return tuple{v, mkBool(ok)}
	}
	return v
}

func (th *thread) chanClose(cv value) {
	m := th.m
	c, _ := cv.(*chanv)
	if c == nil {
		m.goPanic("close of nil channel")
	}
	m.journalChan(c)
	if c.closed {
		m.goPanic("close of closed channel")
	}
	c.closed = true
	th.yield("chan-close")
}

func (th *thread) selectStmt(fr *frame, instr *ssa.Select) value {
	m := th.m
	type cs struct {
		c    *chanv
		send bool
		v    value
	}
	var cases []cs
	for _, st := range instr.States {
		c, _ := fr.get(st.Chan).(*chanv)
		x := cs{c: c, send: st.Dir == types.SendOnly}
		if x.send {
			x.v = fr.get(st.Send)
		}
		if c != nil {
			m.journalChan(c)
		}
		cases = append(cases, x)
	}
	th.yield("select")
	ready := func() []int {
		var r []int
		for i, x := range cases {
			if x.c == nil {
				continue
			}
			if x.send {
				if x.c.closed || (x.c.cap > 0 && len(x.c.buf) < x.c.cap) || (x.c.cap == 0 && len(x.c.waiters) > 0) {
					r = append(r, i)
				}
			} else if x.c.recvReady() {
				r = append(r, i)
			}
		}
		return r
	}
	rd := ready()
	if len(rd) == 0 {
		if !instr.Blocking {
			r := tuple{mkInt(^uint64(0)), mkBool(false)}
			for _, st := range instr.States {
				if st.Dir == types.RecvOnly {
					r = append(r, m.zero(st.Chan.Type().Underlying().(*types.Chan).Elem()))
				}
			}
			return r
		}
		// register as waiting receiver on unbuffered channels so that senders in
		// another select can complete (rendezvous)
		var ws []*recvWaiter
		for _, x := range cases {
			if x.c != nil && !x.send {
				w := &recvWaiter{}
				ws = append(ws, w)
				x.c.waiters = append(x.c.waiters, w)
			}
		}
		th.block("select", func() bool { return len(ready()) > 0 })
		k := 0
		for _, x := range cases {
			if x.c != nil && !x.send {
				x.c.dropWaiter(ws[k])
				k++
			}
		}
		rd = ready()
	}
	k := 0
	if len(rd) > 1 {
		if m.exploreSched {
			k = m.chooseSym(len(rd), "select")
		}
	}
	chosen := rd[k]
	x := cases[chosen]
	recvOk := false
	var recvVal value
	if x.send {
		if x.c.closed {
			m.goPanic("send on closed channel")
		}
		if x.c.cap > 0 {
			x.c.buf = append(x.c.buf, x.v)
		} else {
			// a receiver is blocked in select/recv: hand over through sendq
			it := &chanItem{v: x.v, done: false}
			x.c.sendq = append(x.c.sendq, it)
			x.c.waiters = x.c.waiters[1:] // claim one waiting receiver
		}
	} else {
		recvVal, recvOk = x.c.takeRecv()
	}
	r := tuple{mkInt(uint64(chosen)), mkBool(recvOk)}
	for i, st := range instr.States {
		if st.Dir == types.RecvOnly {
			if i == chosen && recvOk {
				r = append(r, recvVal)
			} else {
				r = append(r, m.zero(st.Chan.Type().Underlying().(*types.Chan).Elem()))
			}
		}
	}
	return r
}

package main

// The SSA interpreter proper: frames, instruction dispatch, calls, defers,
// panics. Symbolic decisions are delegated to explore.go (branch, concretize).

import (
	"fmt"
	"go/token"
	"go/types"
	"os"
	"strings"
	"sync"

	"golang.org/x/tools/go/ssa"
)

type engineError struct{ msg string }

type endKind int

const (
	endDone endKind = iota
	endAssumeFalse
	endUnsupported
	endBoundExceeded
	endInconclusive
	endViolation
	endAbortThread
	endEngineError
)

func (k endKind) String() string {
	return [...]string{"done", "assume-false", "unsupported", "bound-exceeded", "inconclusive", "violation", "abort-thread", "engine-error"}[k]
}

// pathEnd is panicked to end the current path.
type pathEnd struct {
	kind endKind
	msg  string
}

// targetPanic is a Go-level panic in the interpreted program.
type targetPanic struct {
	v      value
	where  string
	goexit bool
}

type deferred struct {
	fn    value
	args  []value
	instr *ssa.Defer
	tail  *deferred
}

type fnInfo struct {
	reg    map[ssa.Value]int
	nregs  int
	consts map[*ssa.Const]value
	pkg    string
	allocFrame bool
}

var fnInfos sync.Map // *ssa.Function -> *fnInfo

func getFnInfo(fn *ssa.Function) *fnInfo {
	if v, ok := fnInfos.Load(fn); ok {
		return v.(*fnInfo)
	}
	fi := &fnInfo{reg: map[ssa.Value]int{}}
	n := 0
	add := func(v ssa.Value) {
		fi.reg[v] = n
		n++
	}
	for _, p := range fn.Params {
		add(p)
	}
	for _, p := range fn.FreeVars {
		add(p)
	}
	for _, b := range fn.Blocks {
		for _, in := range b.Instrs {
			if v, ok := in.(ssa.Value); ok {
				add(v)
			}
		}
	}
	fi.nregs = n
	fi.allocFrame = strings.Contains(fn.String(), "verifTrackAlloc")
	if fn.Pkg != nil {
		fi.pkg = fn.Pkg.Pkg.Path()
	} else if fn.Origin() != nil && fn.Origin().Pkg != nil {
		fi.pkg = fn.Origin().Pkg.Pkg.Path()
	} else if p := fn.Parent(); p != nil {
		fi.pkg = getFnInfo(p).pkg
	}
	if strings.HasSuffix(fi.pkg, "/mempool") {
		fi.allocFrame = true
	}
	v, _ := fnInfos.LoadOrStore(fn, fi)
	return v.(*fnInfo)
}

type frame struct {
	th               *thread
	caller           *frame
	fn               *ssa.Function
	info             *fnInfo
	block, prevBlock *ssa.BasicBlock
	regs             []value
	defers           *deferred
	result           value
	panicking        bool
	panic            interface{}
	callInstr        ssa.Instruction
	depth            int
}

func (fr *frame) get(key ssa.Value) value {
	switch key := key.(type) {
	case nil:
		return nil
	case *ssa.Function:
		return key
	case *ssa.Builtin:
		return key
	case *ssa.Const:
		m := fr.th.m
		if v, ok := m.constCache[key]; ok {
			return v
		}
		v := constValue(m, key)
		switch v.(type) {
		case structv, *arrobj:
			return v // aggregates are not cached (fresh zero each time)
		}
		m.constCache[key] = v
		return v
	case *ssa.Global:
		return fr.th.m.globalPtr(key)
	}
	idx, ok := fr.info.reg[key]
	if !ok {
		panic(engineError{fmt.Sprintf("get: no register for %T %v in %v", key, key.Name(), fr.fn)})
	}
	return fr.regs[idx]
}

func (fr *frame) set(key ssa.Value, v value) {
	fr.regs[fr.info.reg[key]] = v
}

func (m *machine) pos(instr ssa.Instruction) string {
	if instr == nil {
		return "?"
	}
	p := instr.Pos()
	if p == token.NoPos {
		if instr.Parent() != nil {
			return instr.Parent().String()
		}
		return "?"
	}
	ps := m.prog.Fset.Position(p)
	return fmt.Sprintf("%s:%d", ps.Filename, ps.Line)
}

// goPanic raises a Go run-time panic in the target program.
func (m *machine) goPanic(msg string) {
	panic(targetPanic{v: iface{t: m.runtimeErrType, v: msg}, where: m.curPos()})
}

func (m *machine) curPos() string {
	th := m.cur
	if th == nil || th.fr == nil {
		return "?"
	}
	return th.fr.fn.String() + " @ " + m.pos(th.curInstr)
}

// stack returns a short description of the current call stack.
func (m *machine) stack() string {
	var sb strings.Builder
	th := m.cur
	if th == nil {
		return ""
	}
	n := 0
	for fr := th.fr; fr != nil && n < 12; fr = fr.caller {
		sb.WriteString(fr.fn.String())
		sb.WriteString(" <- ")
		n++
	}
	return sb.String()
}

// ---------------------------------------------------------------------------

func (th *thread) runDefer(fr *frame, d *deferred) {
	var ok bool
	defer func() {
		if !ok {
			r := recover()
			if pe, isEnd := r.(pathEnd); isEnd {
				panic(pe)
			}
			if ee, isEE := r.(engineError); isEE {
				panic(ee)
			}
			fr.panicking = true
			fr.panic = r
			th.fr = fr
		}
	}()
	th.call(fr, d.fn, d.args, d.instr)
	ok = true
}

func (th *thread) runDefers(fr *frame) {
	for d := fr.defers; d != nil; d = fr.defers {
		fr.defers = d.tail
		th.runDefer(fr, d)
	}
	fr.defers = nil
	if fr.panicking {
		panic(fr.panic)
	}
}

func (th *thread) prepareCall(fr *frame, call *ssa.CallCommon) (fn value, args []value) {
	v := fr.get(call.Value)
	if call.Method == nil {
		fn = v
	} else {
		recv, ok := v.(iface)
		if !ok {
			panic(engineError{fmt.Sprintf("invoke on %T", v)})
		}
		if recv.t == nil {
			th.m.goPanic("runtime error: invalid memory address or nil pointer dereference (method on nil interface)")
		}
		f := th.m.lookupMethod(recv.t, call.Method)
		if f == nil {
			panic(engineError{fmt.Sprintf("method set for dynamic type %v does not contain %s", recv.t, call.Method)})
		}
		fn = f
		args = append(args, recv.v)
	}
	for _, arg := range call.Args {
		args = append(args, fr.get(arg))
	}
	return
}

func (m *machine) lookupMethod(typ types.Type, meth *types.Func) value {
	if typ == m.runtimeErrType || typ == m.extErrType || typ == m.rtypeType {
		return &builtinMethod{name: meth.Name(), typ: typ}
	}
	f := m.prog.LookupMethod(typ, meth.Pkg(), meth.Name())
	if f == nil {
		return nil
	}
	return f
}

// builtinMethod is a method of one of the engine's synthetic types.
type builtinMethod struct {
	name string
	typ  types.Type
}

func (th *thread) call(caller *frame, fn value, args []value, site ssa.Instruction) value {
	switch fn := fn.(type) {
	case *ssa.Function:
		if fn == nil {
			th.m.goPanic("call of nil function")
		}
		return th.callSSA(caller, fn, args, nil, site)
	case *closure:
		return th.callSSA(caller, fn.fn, args, fn.env, site)
	case *ssa.Builtin:
		return th.callBuiltin(caller, fn, args, site)
	case *builtinMethod:
		switch fn.name {
		case "Error", "String":
			switch v := args[0].(type) {
			case string:
				return v
			case *extErr:
				return v.name
			}
			return "error"
		case "RuntimeError":
			return nil
		case "Elem":
			return iface{t: fn.typ, v: args[0]}
		case "Unwrap":
			return iface{}
		case "Timeout", "Temporary":
			return mkBool(false)
		}
		panic(pathEnd{kind: endUnsupported, msg: "builtin method " + fn.name})
	case nil:
		th.m.goPanic("runtime error: invalid memory address or nil pointer dereference (call of nil func)")
	case *nativeFn:
		return fn.f(th, args)
	}
	panic(engineError{fmt.Sprintf("cannot call %T", fn)})
}

// nativeFn is an engine-provided function value.
type nativeFn struct {
	name string
	f    func(th *thread, args []value) value
}

const maxDepth = 400

func (th *thread) callSSA(caller *frame, fn *ssa.Function, args []value, env []value, site ssa.Instruction) value {
	m := th.m
	if fn.Parent() == nil || len(fn.Blocks) == 0 {
		if r, handled := m.tryIntrinsic(th, caller, fn, args, site); handled {
			return r
		}
	}
	if fn.Synthetic == "package initializer" && fn.Pkg != nil {
		if !m.world.initAllowed[fn.Pkg.Pkg.Path()] {
			return nil
		}
		return th.runPkgInit(caller, fn, site)
	}
	if fn.Blocks == nil {
		panic(pathEnd{kind: endUnsupported, msg: "no body for function " + fn.String() + " (called from " + m.curPos() + ")"})
	}
	if fn.TypeParams().Len() > 0 && len(fn.TypeArgs()) == 0 {
		panic(pathEnd{kind: endUnsupported, msg: "uninstantiated generic " + fn.String()})
	}
	info := getFnInfo(fn)
	fr := &frame{th: th, caller: caller, fn: fn, info: info, callInstr: site}
	if caller != nil {
		fr.depth = caller.depth + 1
		if fr.depth > maxDepth {
			panic(pathEnd{kind: endBoundExceeded, msg: "call depth exceeded in " + fn.String()})
		}
	}
	fr.regs = make([]value, info.nregs)
	for i, p := range fn.Params {
		fr.regs[info.reg[p]] = args[i]
	}
	for i, fv := range fn.FreeVars {
		fr.regs[info.reg[fv]] = env[i]
	}
	for _, l := range fn.Locals {
		var slot value = m.zero(deref(l.Type()))
		sp := new(value)
		*sp = slot
		fr.regs[info.reg[l]] = ptr{slot: sp, own: m.newObj("local")}
	}
	m.noteFn(fn)
	fr.block = fn.Blocks[0]
	saved := th.fr
	th.fr = fr
	if info.allocFrame {
		m.allocDepth++
		defer func() { m.allocDepth-- }()
	}
	for fr.block != nil {
		th.runFrame(fr)
	}
	th.fr = saved
	return fr.result
}

// runPkgInit runs one package initialiser; a failure is contained: globals of
// that package that were not yet written are marked uninitialised, so that a
// later read ends the path as unsupported instead of seeing a wrong zero.
func (th *thread) runPkgInit(caller *frame, fn *ssa.Function, site ssa.Instruction) (res value) {
	m := th.m
	if m.initDone[fn] {
		return nil
	}
	m.initDone[fn] = true
	saved := th.fr
	defer func() {
		if r := recover(); r != nil {
			th.fr = saved
			fmt.Fprintf(os.Stderr, "warning: init of %s incomplete: %s\n   stack: %s\n", fn.Pkg.Pkg.Path(), describePanic(r), m.stack())
			touched := initTouched(fn.Pkg)
			for _, mem := range fn.Pkg.Members {
				if g, ok := mem.(*ssa.Global); ok {
					p := m.globalPtr(g)
					if p.own != nil && !p.own.stored && touched[g] {
						p.own.uninit = true
						p.own.what = "global " + g.String() + " (package init incomplete)"
					p.own.lazyG = g
					}
				}
			}
		}
	}()
	info := getFnInfo(fn)
	fr := &frame{th: th, caller: caller, fn: fn, info: info, callInstr: site}
	if caller != nil {
		fr.depth = caller.depth + 1
	}
	fr.regs = make([]value, info.nregs)
	for _, l := range fn.Locals {
		sp := new(value)
		*sp = m.zero(deref(l.Type()))
		fr.regs[info.reg[l]] = ptr{slot: sp, own: m.newObj("local")}
	}
	fr.block = fn.Blocks[0]
	th.fr = fr
	for fr.block != nil {
		th.runFrame(fr)
	}
	th.fr = saved
	return nil
}

var initTouchedCache sync.Map

// initTouched returns the globals of pkg that its initialiser may write.
func initTouched(pkg *ssa.Package) map[*ssa.Global]bool {
	if v, ok := initTouchedCache.Load(pkg); ok {
		return v.(map[*ssa.Global]bool)
	}
	res := map[*ssa.Global]bool{}
	var fns []*ssa.Function
	if f := pkg.Func("init"); f != nil {
		fns = append(fns, f)
	}
	for name, mem := range pkg.Members {
		if f, ok := mem.(*ssa.Function); ok && strings.HasPrefix(name, "init#") {
			fns = append(fns, f)
		}
	}
	for _, f := range fns {
		for _, b := range f.Blocks {
			for _, in := range b.Instrs {
				for _, op := range in.Operands(nil) {
					if g, ok := (*op).(*ssa.Global); ok && g.Pkg == pkg {
						res[g] = true
					}
				}
			}
		}
	}
	initTouchedCache.Store(pkg, res)
	return res
}

func deref(t types.Type) types.Type {
	if p, ok := t.Underlying().(*types.Pointer); ok {
		return p.Elem()
	}
	panic(engineError{"deref of non-pointer " + t.String()})
}

func (th *thread) runFrame(fr *frame) {
	defer func() {
		if fr.block == nil {
			return // normal return
		}
		r := recover()
		switch r.(type) {
		case pathEnd, engineError:
			panic(r)
		case targetPanic:
		default:
			// native panic inside the engine
			panic(r)
		}
		th.fr = fr
		fr.panicking = true
		fr.panic = r
		th.m.logPanic(r.(targetPanic), fr)
		th.runDefers(fr) // re-panics unless recovered
		fr.block = fr.fn.Recover
		if fr.block == nil {
			// recovered, function without named results: return zero values
			fr.result = th.m.zero(fr.fn.Signature.Results())
			if fr.fn.Signature.Results().Len() == 0 {
				fr.result = nil
			}
		}
	}()
	m := th.m
	for {
		// phis
		instrs := fr.block.Instrs
		np := 0
		for np < len(instrs) {
			if _, ok := instrs[np].(*ssa.Phi); !ok {
				break
			}
			np++
		}
		if np > 0 {
			predIndex := -1
			for i, p := range fr.block.Preds {
				if p == fr.prevBlock {
					predIndex = i
					break
				}
			}
			var tmp [8]value
			tmps := tmp[:0]
			for _, in := range instrs[:np] {
				tmps = append(tmps, fr.get(in.(*ssa.Phi).Edges[predIndex]))
			}
			for i, in := range instrs[:np] {
				fr.set(in.(*ssa.Phi), tmps[i])
			}
		}
		for _, instr := range instrs[np:] {
			m.steps++
			if m.steps > m.maxSteps {
				if m.hangCheck {
					m.hangCheck = false
					m.maxSteps += 100000
					m.violation("hang", fmt.Sprintf("no termination within the step budget in %s (stack: %s)", fr.fn, m.stack()))
				}
				panic(pathEnd{kind: endBoundExceeded, msg: fmt.Sprintf("step budget %d exceeded in %s", m.maxSteps, fr.fn)})
			}
			th.curInstr = instr
			if m.trace {
				if v, ok := instr.(ssa.Value); ok {
					fmt.Fprintf(os.Stderr, "[t%d] %s: %s = %s\n", th.id, fr.fn.Name(), v.Name(), instr)
				} else {
					fmt.Fprintf(os.Stderr, "[t%d] %s: %s\n", th.id, fr.fn.Name(), instr)
				}
			}
			if th.visit(fr, instr) {
				return
			}
		}
	}
}

// visit executes one instruction; returns true on Return.
func (th *thread) visit(fr *frame, instr ssa.Instruction) bool {
	m := th.m
	switch instr := instr.(type) {
	case *ssa.DebugRef:
	case *ssa.UnOp:
		switch instr.Op {
		case token.MUL:
			fr.set(instr, m.load(fr.get(instr.X), instr.Type()))
		case token.ARROW:
			fr.set(instr, th.chanRecv(fr.get(instr.X), instr.CommaOk, instr.Type()))
		default:
			fr.set(instr, m.unop(instr, fr.get(instr.X)))
		}
	case *ssa.BinOp:
		fr.set(instr, m.binop(instr.Op, instr.X.Type(), fr.get(instr.X), fr.get(instr.Y), instr.Y.Type()))
	case *ssa.Call:
		fn, args := th.prepareCall(fr, &instr.Call)
		r := th.call(fr, fn, args, instr)
		th.fr = fr
		fr.set(instr, r)
	case *ssa.ChangeInterface:
		fr.set(instr, fr.get(instr.X))
	case *ssa.ChangeType:
		fr.set(instr, fr.get(instr.X))
	case *ssa.Convert:
		fr.set(instr, m.conv(instr.Type(), instr.X.Type(), fr.get(instr.X)))
	case *ssa.SliceToArrayPointer:
		s := fr.get(instr.X).(slicev)
		n := int(deref(instr.Type()).Underlying().(*types.Array).Len())
		if s.len < n {
			m.goPanic("runtime error: cannot convert slice to array pointer (length)")
		}
		if s.arr == nil {
			fr.set(instr, ptr{})
		} else {
			// view: share elements through a window array object is not
			// expressible; support only whole-array windows
			if s.off == 0 && len(s.arr.elems) == n {
				sp := new(value)
				*sp = s.arr
				fr.set(instr, ptr{slot: sp, own: &s.arr.obj})
			} else {
				panic(pathEnd{kind: endUnsupported, msg: "SliceToArrayPointer on sub-slice"})
			}
		}
	case *ssa.MakeInterface:
		fr.set(instr, iface{t: instr.X.Type(), v: fr.get(instr.X)})
	case *ssa.Extract:
		fr.set(instr, fr.get(instr.Tuple).(tuple)[instr.Index])
	case *ssa.Slice:
		fr.set(instr, m.slice(instr, fr.get(instr.X), fr.get(instr.Low), fr.get(instr.High), fr.get(instr.Max)))
	case *ssa.Return:
		switch len(instr.Results) {
		case 0:
		case 1:
			fr.result = fr.get(instr.Results[0])
		default:
			res := make(tuple, len(instr.Results))
			for i, r := range instr.Results {
				res[i] = fr.get(r)
			}
			fr.result = res
		}
		fr.block = nil
		return true
	case *ssa.RunDefers:
		th.runDefers(fr)
		th.fr = fr
	case *ssa.Panic:
		panic(targetPanic{v: fr.get(instr.X), where: m.curPos()})
	case *ssa.Send:
		th.chanSend(fr.get(instr.Chan), fr.get(instr.X))
	case *ssa.Store:
		m.store(deref(instr.Addr.Type()), fr.get(instr.Addr), fr.get(instr.Val))
	case *ssa.If:
		c := fr.get(instr.Cond).(sc)
		succ := 1
		if c.t == nil {
			if c.c != 0 {
				succ = 0
			}
		} else if m.branch(c.t, "if") {
			succ = 0
		}
		fr.prevBlock, fr.block = fr.block, fr.block.Succs[succ]
		return false
	case *ssa.Jump:
		fr.prevBlock, fr.block = fr.block, fr.block.Succs[0]
		return false
	case *ssa.Defer:
		fn, args := th.prepareCall(fr, &instr.Call)
		if instr.DeferStack != nil {
			panic(pathEnd{kind: endUnsupported, msg: "defer with explicit DeferStack (range-over-func)"})
		}
		fr.defers = &deferred{fn: fn, args: args, instr: instr, tail: fr.defers}
	case *ssa.Go:
		fn, args := th.prepareCall(fr, &instr.Call)
		th.spawn(fn, args, instr)
	case *ssa.MakeChan:
		n := int(m.concretize(fr.get(instr.Size).(sc), 64, "makechan"))
		m.nextObj++
		fr.set(instr, &chanv{obj: obj{id: m.nextObj, epoch: m.epoch, what: "chan"}, cap: n})
	case *ssa.Alloc:
		t := deref(instr.Type())
		if instr.Heap {
			sp := new(value)
			*sp = m.zero(t)
			fr.set(instr, ptr{slot: sp, own: m.newObj("new")})
		} else {
			p := fr.get(instr).(ptr)
			*p.slot = m.zero(t)
		}
	case *ssa.MakeSlice:
		ln := int64(m.concretize(fr.get(instr.Len).(sc), 64, "makeslice-len"))
		cp := int64(m.concretize(fr.get(instr.Cap).(sc), 64, "makeslice-cap"))
		if ln < 0 || ln > maxAlloc {
			m.goPanic("runtime error: makeslice: len out of range")
		}
		if cp < ln || cp > maxAlloc {
			m.goPanic("runtime error: makeslice: cap out of range")
		}
		et := instr.Type().Underlying().(*types.Slice).Elem()
		a := m.newArr(int(cp), "make")
		m.fillZero(a.elems, et)
		fr.set(instr, slicev{arr: a, len: int(ln), cap: int(cp)})
	case *ssa.MakeMap:
		fr.set(instr, m.makeMap(instr.Type().Underlying().(*types.Map).Key()))
	case *ssa.Range:
		fr.set(instr, m.rangeIter(fr.get(instr.X), instr.X.Type()))
	case *ssa.Next:
		fr.set(instr, fr.get(instr.Iter).(iterator).next(m))
	case *ssa.FieldAddr:
		if len(m.racy) > 0 && len(m.threads) > 1 && m.racyInstr(instr) {
			// an unprotected access to a field in the racy set is a scheduling point
			th.yield("racy-field")
		}
		p := fr.get(instr.X).(ptr)
		if p.slot == nil {
			m.goPanic("runtime error: invalid memory address or nil pointer dereference")
		}
		s, ok := (*p.slot).(structv)
		if !ok {
			panic(engineError{fmt.Sprintf("FieldAddr on %T at %s", *p.slot, m.curPos())})
		}
		fr.set(instr, ptr{slot: &s[instr.Field], own: p.own})
	case *ssa.Field:
		fr.set(instr, m.copyVal(fr.get(instr.X).(structv)[instr.Field]))
	case *ssa.IndexAddr:
		fr.set(instr, m.indexAddr(fr.get(instr.X), fr.get(instr.Index), instr))
	case *ssa.Index:
		fr.set(instr, m.index(fr.get(instr.X), fr.get(instr.Index), instr))
	case *ssa.Lookup:
		fr.set(instr, m.lookup(instr, fr.get(instr.X), fr.get(instr.Index)))
	case *ssa.MapUpdate:
		mp, _ := fr.get(instr.Map).(*mapv)
		if mp == nil {
			m.goPanic("assignment to entry in nil map")
		}
		m.mapInsert(mp, fr.get(instr.Key), fr.get(instr.Value))
	case *ssa.TypeAssert:
		fr.set(instr, m.typeAssert(instr, fr.get(instr.X).(iface)))
	case *ssa.MakeClosure:
		var bindings []value
		for _, b := range instr.Bindings {
			bindings = append(bindings, fr.get(b))
		}
		fr.set(instr, &closure{instr.Fn.(*ssa.Function), bindings})
	case *ssa.Select:
		fr.set(instr, th.selectStmt(fr, instr))
	default:
		panic(engineError{fmt.Sprintf("unexpected instruction %T", instr)})
	}
	return false
}

var racyInstrCache sync.Map // *ssa.FieldAddr -> field name

func (m *machine) racyInstr(instr *ssa.FieldAddr) bool {
	var name string
	if v, ok := racyInstrCache.Load(instr); ok {
		name = v.(string)
	} else {
		if st, ok := deref(instr.X.Type()).Underlying().(*types.Struct); ok {
			name = st.Field(instr.Field).Name()
		}
		racyInstrCache.Store(instr, name)
	}
	if !m.racy[name] {
		return false
	}
	// only target-package code (not the harness, not std)
	fn := instr.Parent()
	return fn != nil && !strings.Contains(fn.Name(), "verif") && !strings.HasPrefix(fn.Name(), "vk")
}

const maxAlloc = 1 << 24

func (m *machine) fillZero(elems []value, et types.Type) {
	if len(elems) == 0 {
		return
	}
	z := m.zero(et)
	switch z.(type) {
	case structv, *arrobj:
		elems[0] = z
		for i := 1; i < len(elems); i++ {
			elems[i] = m.zero(et)
		}
	default:
		for i := range elems {
			elems[i] = z
		}
	}
}

// ---------------------------------------------------------------------------
// memory access

func (m *machine) checkPoison(o *obj, what string) {
	if o != nil && o.poisoned && !m.inAllocator() {
		site := "?"
		if th := m.cur; th != nil {
			for fr := th.fr; fr != nil; fr = fr.caller {
				n := fr.fn.String()
				if strings.Contains(n, "verif") || strings.Contains(n, "/mempool") {
					continue
				}
				if i := strings.LastIndex(n, "/"); i >= 0 {
					n = n[i+1:]
				}
				site = strings.NewReplacer("(", "", ")", "", "*", "").Replace(n)
				break
			}
		}
		m.violationWith("use-after-free", what+" in "+site, fmt.Sprintf("%s of freed pooled buffer obj%d (%s) at %s", what, o.id, o.what, m.curPos()), m.model)
	}
}

func (m *machine) loadElem(a *arrobj, i int) value {
	m.checkPoison(&a.obj, "read")
	return a.elems[i]
}

func (m *machine) load(pv value, T types.Type) value {
	p, ok := pv.(ptr)
	if !ok {
		panic(engineError{fmt.Sprintf("load through %T at %s", pv, m.curPos())})
	}
	if p.sidx != nil {
		return m.loadSym(p, T)
	}
	if p.tok != nil {
		return m.loadPun(p, T)
	}
	if p.slot == nil {
		m.goPanic("runtime error: invalid memory address or nil pointer dereference")
	}
	if p.own != nil {
		if p.own.poisoned {
			m.checkPoison(p.own, "read")
		}
		if p.own.uninit && !m.tryLazyInit(p.own) {
			panic(pathEnd{kind: endUnsupported, msg: "read of " + p.own.what})
		}
	}
	v := *p.slot
	// unsafe puns
	switch T.Underlying().(type) {
	case *types.Basic:
		if isStringType(T) {
			if s, isSlice := v.(slicev); isSlice { // *(*string)(unsafe.Pointer(&buf))
				b := make([]value, s.len)
				for i := range b {
					b[i] = s.arr.elems[s.off+i]
				}
				return mkStr(b)
			}
		}
	case *types.Slice:
		if a, isArr := v.(*arrobj); isArr { // *(*[]byte)(unsafe.Pointer(&[3]uintptr))
			return m.sliceFromHeader(a)
		}
	}
	if _, isBad := v.(bad); isBad {
		panic(engineError{"load of destroyed local at " + m.curPos()})
	}
	return m.copyVal(v)
}

func (m *machine) sliceFromHeader(a *arrobj) value {
	if len(a.elems) != 3 {
		panic(pathEnd{kind: endUnsupported, msg: "slice header pun on array of other size"})
	}
	u, ok := a.elems[0].(uptrv)
	ln, ok2 := a.elems[1].(sc)
	cp, ok3 := a.elems[2].(sc)
	if !ok2 || !ok3 || ln.t != nil || cp.t != nil {
		panic(pathEnd{kind: endUnsupported, msg: "slice header pun with non-concrete len"})
	}
	if !ok {
		if z, isSc := a.elems[0].(sc); isSc && z.t == nil && z.c == 0 && ln.c == 0 {
			return slicev{}
		}
		panic(pathEnd{kind: endUnsupported, msg: "slice header pun with unknown data pointer"})
	}
	sd, ok := u.tok.(strDataTok)
	if !ok {
		panic(pathEnd{kind: endUnsupported, msg: "slice header pun with non-string data pointer"})
	}
	b := strBytes(sd.s)
	arr := m.newArr(len(b), "stringdata")
	copy(arr.elems, b)
	return slicev{arr: arr, len: int(ln.c), cap: int(cp.c)}
}

type strPunTok struct {
	s     value
	field int
}

func (m *machine) loadPun(p ptr, T types.Type) value {
	switch tk := p.tok.(type) {
	case strPunTok:
		if tk.field == 0 {
			if strLen(tk.s) == 0 {
				return mkInt(0)
			}
			return uptrv{tok: strDataTok{tk.s}}
		}
		return mkInt(uint64(strLen(tk.s)))
	}
	panic(pathEnd{kind: endUnsupported, msg: "load through unsafe token pointer"})
}

// loadSym loads arr[lo+sidx] for a symbolic index as an ite chain.
func (m *machine) loadSym(p ptr, T types.Type) value {
	m.checkPoison(&p.arr.obj, "read")
	n := p.hi - p.lo
	if n == 0 {
		panic(engineError{"loadSym on empty range"})
	}
	// all elements must be scalars
	w := 0
	if isIntegerType(T) || isBoolType(T) {
		w, _ = widthOf(T)
	} else {
		// concretize the index
		i := int(m.concretizeTerm(p.sidx, "index-nonscalar"))
		return m.copyVal(p.arr.elems[p.lo+i])
	}
	tb := m.tb
	iw := p.sidx.w
	// group runs of identical elements (common for constant tables)
	type run struct {
		from, to int // inclusive indices
		v        *term
	}
	var runs []run
	for i := 0; i < n; i++ {
		e := p.arr.elems[p.lo+i].(sc)
		et := m.toTerm(e, w)
		if len(runs) > 0 && runs[len(runs)-1].v == et {
			runs[len(runs)-1].to = i
		} else {
			runs = append(runs, run{i, i, et})
		}
	}
	if len(runs) > 4096 {
		i := int(m.concretizeTerm(p.sidx, "index-large-table"))
		return p.arr.elems[p.lo+i]
	}
	// if few distinct values, build by value classes
	res := runs[len(runs)-1].v
	for i := len(runs) - 2; i >= 0; i-- {
		r := runs[i]
		var c *term
		if r.from == r.to {
			c = tb.eq(p.sidx, tb.constBV(uint64(r.from), iw))
		} else if r.from == 0 {
			c = tb.cmp(opUle, p.sidx, tb.constBV(uint64(r.to), iw))
		} else {
			c = tb.and(tb.cmp(opUle, tb.constBV(uint64(r.from), iw), p.sidx), tb.cmp(opUle, p.sidx, tb.constBV(uint64(r.to), iw)))
		}
		res = tb.ite(c, r.v, res)
	}
	return m.fromTerm(res)
}

func (m *machine) store(T types.Type, pv value, v value) {
	p, ok := pv.(ptr)
	if !ok {
		panic(engineError{fmt.Sprintf("store through %T", pv)})
	}
	if p.sidx != nil {
		i := int(m.concretizeTerm(p.sidx, "store-index"))
		p = ptr{slot: &p.arr.elems[p.lo+i], own: &p.arr.obj, arr: p.arr, idx: p.lo + i}
	}
	if p.slot == nil {
		if p.tok != nil {
			panic(pathEnd{kind: endUnsupported, msg: "store through unsafe token pointer"})
		}
		m.goPanic("runtime error: invalid memory address or nil pointer dereference")
	}
	m.checkPoison(p.own, "write")
	m.storeSlot(T, p.slot, p.own, v)
}

func (m *machine) storeSlot(T types.Type, slot *value, own *obj, v value) {
	switch cur := (*slot).(type) {
	case structv:
		if rhs, ok := v.(structv); ok && len(rhs) == len(cur) {
			st, _ := T.Underlying().(*types.Struct)
			for i := range cur {
				var ft types.Type
				if st != nil {
					ft = st.Field(i).Type()
				}
				m.storeSlot(ft, &cur[i], own, rhs[i])
			}
			return
		}
	case *arrobj:
		if rhs, ok := v.(*arrobj); ok && len(rhs.elems) == len(cur.elems) {
			var et types.Type
			if at, ok := T.Underlying().(*types.Array); ok {
				et = at.Elem()
			}
			for i := range cur.elems {
				m.storeSlot(et, &cur.elems[i], &cur.obj, rhs.elems[i])
			}
			return
		}
	}
	if m.epoch == 0 && own != nil {
		own.stored = true
	}
	m.journalSlot(slot, own)
	*slot = v
}

func (m *machine) journalSlot(slot *value, own *obj) {
	if m.epoch > 0 && (own == nil || own.epoch < m.epoch) {
		m.journal = append(m.journal, journalEntry{slot: slot, old: *slot})
	}
}

// ---------------------------------------------------------------------------
// indexing and slicing

// boundsCheck makes sure 0 <= idx < n, forking a panic path if the violation
// is feasible. Returns the (possibly symbolic) index as sc.
func (m *machine) boundsCheck(idx sc, idxT types.Type, n int, what string) {
	w, signed := widthOf(idxT)
	if idx.t == nil {
		var i int64
		if signed {
			i = signExt(idx.c, w)
		} else {
			i = int64(idx.c)
			if idx.c > uint64(1)<<62 {
				i = -1
			}
		}
		if i < 0 || i >= int64(n) {
			m.goPanic(fmt.Sprintf("runtime error: index out of range [%d] with length %d", i, n))
		}
		return
	}
	tb := m.tb
	it := idx.t
	if w < 64 {
		if signed {
			it = tb.sext(it, 64)
		} else {
			it = tb.zext(it, 64)
		}
	}
	inb := tb.cmp(opUlt, it, tb.constBV(uint64(n), 64))
	if !m.branch(inb, "bounds:"+what) {
		m.goPanic(fmt.Sprintf("runtime error: index out of range [symbolic] with length %d", n))
	}
}

func (m *machine) idx64(idx sc, t types.Type) *term {
	w, signed := widthOf(t)
	if w == 64 {
		return idx.t
	}
	if signed {
		return m.tb.sext(idx.t, 64)
	}
	return m.tb.zext(idx.t, 64)
}

func (m *machine) indexAddr(x, idxv value, instr *ssa.IndexAddr) value {
	idx := idxv.(sc)
	var arr *arrobj
	var off, n int
	switch xv := x.(type) {
	case slicev:
		arr, off, n = xv.arr, xv.off, xv.len
	case ptr:
		if xv.slot == nil {
			if xv.tok != nil {
				return m.punIndexAddr(xv, idx)
			}
			m.goPanic("runtime error: invalid memory address or nil pointer dereference")
		}
		switch a := (*xv.slot).(type) {
		case *arrobj:
			arr, off, n = a, 0, len(a.elems)
		case string, *symstr:
			// (*[2]uintptr)(unsafe.Pointer(&s))
			if idx.t != nil {
				panic(pathEnd{kind: endUnsupported, msg: "symbolic index into string header pun"})
			}
			return ptr{tok: strPunTok{s: a, field: int(idx.c)}}
		default:
			panic(engineError{fmt.Sprintf("IndexAddr through pointer to %T at %s", a, m.curPos())})
		}
	default:
		panic(engineError{fmt.Sprintf("IndexAddr on %T", x)})
	}
	m.boundsCheck(idx, instr.Index.Type(), n, "indexaddr")
	if idx.t == nil {
		i := off + int(idx.c)
		return ptr{slot: &arr.elems[i], own: &arr.obj, arr: arr, idx: i}
	}
	if et := deref(instr.Type()); !isIntegerType(et) && !isBoolType(et) {
		// elements that are not scalars (structs, pools, pointers): the address
		// is used for more than a load, so the index is case-split here
		i := off + int(m.concretizeTerm(m.idx64(idx, instr.Index.Type()), "indexaddr-nonscalar"))
		return ptr{slot: &arr.elems[i], own: &arr.obj, arr: arr, idx: i}
	}
	return ptr{own: &arr.obj, arr: arr, sidx: m.idx64(idx, instr.Index.Type()), lo: off, hi: off + n}
}

func (m *machine) punIndexAddr(p ptr, idx sc) value {
	panic(pathEnd{kind: endUnsupported, msg: "index through unsafe token pointer"})
}

func (m *machine) index(x, idxv value, instr *ssa.Index) value {
	idx := idxv.(sc)
	switch xv := x.(type) {
	case *arrobj:
		m.boundsCheck(idx, instr.Index.Type(), len(xv.elems), "index")
		if idx.t == nil {
			return m.copyVal(xv.elems[idx.c])
		}
		return m.loadSym(ptr{arr: xv, sidx: m.idx64(idx, instr.Index.Type()), lo: 0, hi: len(xv.elems)}, instr.Type())
	case string:
		m.boundsCheck(idx, instr.Index.Type(), len(xv), "strindex")
		if idx.t == nil {
			return smallInts[xv[idx.c]]
		}
		a := &arrobj{elems: strBytes(xv)}
		return m.loadSym(ptr{arr: a, sidx: m.idx64(idx, instr.Index.Type()), lo: 0, hi: len(xv)}, instr.Type())
	case *symstr:
		m.boundsCheck(idx, instr.Index.Type(), len(xv.b), "strindex")
		if idx.t == nil {
			return xv.b[idx.c]
		}
		a := &arrobj{elems: xv.b}
		return m.loadSym(ptr{arr: a, sidx: m.idx64(idx, instr.Index.Type()), lo: 0, hi: len(xv.b)}, instr.Type())
	}
	panic(engineError{fmt.Sprintf("Index on %T", x)})
}

func (m *machine) concInt(v value, t types.Type, what string) int64 {
	s := v.(sc)
	w, signed := widthOf(t)
	c := m.concretize(s, w, what)
	if signed {
		return signExt(c, w)
	}
	if c > uint64(1)<<62 {
		return int64(1) << 62
	}
	return int64(c)
}

func (m *machine) slice(instr *ssa.Slice, x, lo, hi, max value) value {
	var l, h, mx int64
	l = 0
	if lo != nil {
		l = m.concInt(lo, instr.Low.Type(), "slice-low")
	}
	hasH, hasM := hi != nil, max != nil
	if hasH {
		h = m.concInt(hi, instr.High.Type(), "slice-high")
	}
	if hasM {
		mx = m.concInt(max, instr.Max.Type(), "slice-max")
	}
	switch xv := x.(type) {
	case string, *symstr:
		n := int64(strLen(xv))
		if !hasH {
			h = n
		}
		if l < 0 || h < l || h > n {
			m.goPanic(fmt.Sprintf("runtime error: slice bounds out of range [%d:%d] with length %d", l, h, n))
		}
		if s, ok := xv.(string); ok {
			return s[l:h]
		}
		return mkStr(xv.(*symstr).b[l:h])
	case slicev:
		if !hasH {
			h = int64(xv.len)
		}
		if !hasM {
			mx = int64(xv.cap)
		}
		if l < 0 || h < l || mx < h || mx > int64(xv.cap) {
			m.goPanic(fmt.Sprintf("runtime error: slice bounds out of range [%d:%d:%d] with capacity %d", l, h, mx, xv.cap))
		}
		if xv.arr == nil {
			return slicev{}
		}
		m.checkPoison(&xv.arr.obj, "reslice")
		return slicev{arr: xv.arr, off: xv.off + int(l), len: int(h - l), cap: int(mx - l)}
	case ptr:
		if xv.slot == nil {
			m.goPanic("runtime error: invalid memory address or nil pointer dereference")
		}
		a, ok := (*xv.slot).(*arrobj)
		if !ok {
			// (*[8]byte)(unsafe.Pointer(&n))[:]  — integer viewed as bytes
			if s, isSc := (*xv.slot).(sc); isSc {
				na := m.newArr(8, "intbytes")
				for i := 0; i < 8; i++ {
					if s.t == nil {
						na.elems[i] = mkInt((s.c >> (8 * uint(i))) & 0xff)
					} else {
						na.elems[i] = m.fromTerm(m.tb.extract(s.t, 8*i, 8))
					}
				}
				a = na
			} else {
				panic(engineError{fmt.Sprintf("Slice through pointer to %T", *xv.slot)})
			}
		}
		n := int64(len(a.elems))
		if !hasH {
			h = n
		}
		if !hasM {
			mx = n
		}
		if l < 0 || h < l || mx < h || mx > n {
			m.goPanic(fmt.Sprintf("runtime error: slice bounds out of range [%d:%d:%d] with capacity %d", l, h, mx, n))
		}
		return slicev{arr: a, off: int(l), len: int(h - l), cap: int(mx - l)}
	}
	panic(engineError{fmt.Sprintf("Slice on %T", x)})
}

// ---------------------------------------------------------------------------
// type assertions

func (m *machine) typeAssert(instr *ssa.TypeAssert, itf iface) value {
	var v value
	var err string
	if idst, ok := instr.AssertedType.Underlying().(*types.Interface); ok {
		if itf.t == nil {
			err = "interface conversion: interface is nil, not " + instr.AssertedType.String()
		} else if !m.implements(itf.t, idst) {
			err = fmt.Sprintf("interface conversion: %v does not implement %v", itf.t, instr.AssertedType)
		} else {
			v = itf
		}
	} else {
		if itf.t == nil {
			err = "interface conversion: interface is nil, not " + instr.AssertedType.String()
		} else if types.Identical(itf.t, instr.AssertedType) {
			v = m.copyVal(itf.v)
		} else {
			err = fmt.Sprintf("interface conversion: interface is %v, not %v", itf.t, instr.AssertedType)
		}
	}
	if err != "" {
		if !instr.CommaOk {
			m.goPanic(err)
		}
		return tuple{m.zero(instr.AssertedType), mkBool(false)}
	}
	if instr.CommaOk {
		return tuple{v, mkBool(true)}
	}
	return v
}

func (m *machine) implements(t types.Type, i *types.Interface) bool {
	if t == m.runtimeErrType || t == m.extErrType {
		// synthetic error types implement `error` (and runtime.Error for runtimeErrType)
		for k := 0; k < i.NumMethods(); k++ {
			switch i.Method(k).Name() {
			case "Error":
			case "RuntimeError":
				if t != m.runtimeErrType {
					return false
				}
			default:
				return false
			}
		}
		return true
	}
	key := implKey{t, i}
	if v, ok := m.implCache[key]; ok {
		return v
	}
	r := types.Implements(t, i)
	m.implCache[key] = r
	return r
}

type implKey struct {
	t types.Type
	i *types.Interface
}

package main

// Path exploration by deterministic re-execution under a decision vector.

import (
	"fmt"
	"go/types"
	"os"
	"runtime/debug"
	"sort"
	"strings"
	"sync"
	"time"

	"golang.org/x/tools/go/ssa"
)

type journalEntry struct {
	slot *value
	old  value
}

type workItem struct {
	prefix []int64
	model  model
}

type symInfo struct {
	Name string `json:"name"`
	Tag  string `json:"tag"`
	W    int    `json:"w"`
	t    *term
}

type violationRec struct {
	Label   string            `json:"label"`
	Discr   string            `json:"discr"`
	Msg     string            `json:"msg"`
	Harness string            `json:"harness"`
	Inputs  []inputVal        `json:"inputs"`
	Decs    []int64           `json:"decisions"`
	Notes   []string          `json:"notes"`
	Where   string            `json:"where"`
	Count   int               `json:"count"`
	PoolChoices int           `json:"pool_choices"` // sync.Pool.Get decisions on the path (cannot be forced natively)
}

type inputVal struct {
	Tag   string `json:"tag"`
	Name  string `json:"name"`
	W     int    `json:"w"`
	Value uint64 `json:"value"`
}

type machine struct {
	prog   *ssa.Program
	world  *world
	tb     *termTable
	sol    *solver
	id     int
	epoch  int
	nextObj int

	globals    map[*ssa.Global]ptr
	constCache map[*ssa.Const]value
	implCache  map[implKey]bool
	journal    []journalEntry
	undo       []func()

	runtimeErrType types.Type
	extErrType     types.Type
	rtypeType      types.Type
	extErrs        map[string]*extErr

	// per path
	prefix      []int64
	decs        []int64
	model       model
	pendingModel model
	syms        []*symInfo
	steps       int
	maxSteps    int
	trace       bool
	threads     []*thread
	cur         *thread
	threadExit  chan *thread
	liveNative  int
	aborting    bool
	switches    int
	preemptions int
	maxPreempt  int
	maxThreads  int
	exploreSched bool
	atomicDepth int
	schedTrace  []int
	deadlocked  bool
	deadlockDesc string
	onDeadlock  func(string)
	mapRotate   int
	panicLog    []string
	notes       []string
	reached     map[string]bool
	bounds      map[string]int64
	poolState   map[*value]*poolModel
	objState    map[interface{}]interface{}
	allocDepth  int
	harness     string
	inconclusive int
	maxSplit    int
	tier        int

	res *results

	initDone     map[*ssa.Function]bool
	fnSeen       map[*ssa.Function]bool
	uninit       map[*value]string
	lazyInits    int
	poolChoices  int
	wraps        map[*extErr]*wrapErr
	chosen       map[string]uint64
	poolMode     int
	hadViolation bool
	hangCheck    bool
	racy         map[string]bool
	lastRet      value
	known        map[*term]bool
	timers       []*vtimer
	now          *term
	nowCount     int
}

type results struct {
	mu          sync.Mutex
	paths       int
	byKind      map[string]int
	msgs        map[string]int // end messages for non-done ends
	violations  map[string]*violationRec
	reached     map[string]int
	bounds      map[string]int64
	fnsEncoded  map[string]int
	samples     []map[string]interface{}
	asserts     int
	assertsSym  int
	steps       int64
	forks       int64
	maxDecs     int
	distinctSig map[string]bool
}

func newResults() *results {
	return &results{byKind: map[string]int{}, msgs: map[string]int{}, violations: map[string]*violationRec{}, reached: map[string]int{}, bounds: map[string]int64{}, fnsEncoded: map[string]int{}, distinctSig: map[string]bool{}}
}

// world is shared, read-only after construction.
type world struct {
	prog     *ssa.Program
	pkgs     []*ssa.Package
	mainPkg  *ssa.Package
	initPkgs []*ssa.Package // packages whose init is interpreted, in dependency order
	cfg      *runConfig
	q          *queue
	targetPkgs []*ssa.Package
	initAllowed map[string]bool
	mmu      sync.Mutex
	machines map[int]*machine
}

type runConfig struct {
	workers    int
	maxSteps   int
	solverBin  string
	timeoutMs  int
	maxPaths   int
	trace      bool
	tier       int
	maxSplit   int
	logQueries string
	deadline   time.Time
	verbose    bool
	initialPrefix []int64
	logOnlyFirst  bool
	logLimit      int
}

type queue struct {
	mu      sync.Mutex
	cond    *sync.Cond
	items   []workItem
	active  int
	closed  bool
	taken   int
	maxTake int
}

func newQueue() *queue {
	q := &queue{}
	q.cond = sync.NewCond(&q.mu)
	return q
}

func (q *queue) push(it workItem) {
	q.mu.Lock()
	q.items = append(q.items, it)
	q.mu.Unlock()
	q.cond.Signal()
}

func (q *queue) pop() (workItem, bool) {
	q.mu.Lock()
	defer q.mu.Unlock()
	for {
		if q.closed {
			return workItem{}, false
		}
		if len(q.items) > 0 {
			it := q.items[len(q.items)-1]
			q.items = q.items[:len(q.items)-1]
			q.active++
			q.taken++
			return it, true
		}
		if q.active == 0 {
			q.closed = true
			q.cond.Broadcast()
			return workItem{}, false
		}
		q.cond.Wait()
	}
}

func (q *queue) done() {
	q.mu.Lock()
	q.active--
	if q.active == 0 && len(q.items) == 0 {
		q.closed = true
		q.cond.Broadcast()
	}
	q.mu.Unlock()
}

func (q *queue) stop() {
	q.mu.Lock()
	q.closed = true
	q.cond.Broadcast()
	q.mu.Unlock()
}

// ---------------------------------------------------------------------------

func newMachine(w *world, id int) (*machine, error) {
	m := &machine{prog: w.prog, world: w, id: id, tb: newTermTable(),
		globals: map[*ssa.Global]ptr{}, constCache: map[*ssa.Const]value{}, implCache: map[implKey]bool{},
		extErrs: map[string]*extErr{}, maxSteps: w.cfg.maxSteps, trace: w.cfg.trace, maxSplit: w.cfg.maxSplit, tier: w.cfg.tier}
	logp := ""
	if w.cfg.logQueries != "" && (id == 0 || !w.cfg.logOnlyFirst) {
		logp = fmt.Sprintf("%s.%d.smt2", w.cfg.logQueries, id)
	}
	sol, err := newSolver(w.cfg.solverBin, w.cfg.timeoutMs, logp)
	if err != nil {
		return nil, err
	}
	m.sol = sol
	sol.logLimit = w.cfg.logLimit
	sol.onAssert = func(t *term) {
		if m.known == nil {
			return
		}
		m.known[t] = true
		if t.op == opNot {
			m.known[t.a] = false
		} else {
			m.known[m.tb.not(t)] = false
		}
		// conjunctions: each conjunct holds
		if t.op == opAnd {
			m.known[t.a] = true
			m.known[t.b] = true
		}
	}
	m.runtimeErrType = types.NewNamed(types.NewTypeName(0, nil, "runtime.Error(engine)", nil), types.Typ[types.String], nil)
	m.extErrType = types.NewNamed(types.NewTypeName(0, nil, "extError(engine)", nil), types.Typ[types.String], nil)
	m.rtypeType = types.NewNamed(types.NewTypeName(0, nil, "rtype(engine)", nil), types.Typ[types.String], nil)
	m.threadExit = make(chan *thread, 64)
	if err := m.initGlobals(); err != nil {
		return nil, err
	}
	return m, nil
}

func (m *machine) globalPtr(g *ssa.Global) ptr {
	if p, ok := m.globals[g]; ok {
		return p
	}
	// global of a package that was not loaded with syntax / not initialised
	sp := new(value)
	*sp = m.zero(deref(g.Type()))
	m.nextObj++
	p := ptr{slot: sp, own: &obj{id: m.nextObj, epoch: 0, what: "global " + g.String()}}
	m.globals[g] = p
	if g.Pkg == nil || !m.world.initAllowed[g.Pkg.Pkg.Path()] {
		m.lateGlobal(g, p)
	}
	return p
}

// runInit executes package initialisers once (epoch 0).
func (m *machine) initGlobals() error {
	m.maxSteps = 200_000_000
	m.initDone = map[*ssa.Function]bool{}
	var ierr error
	// every interpretable package, dependencies first: an initialiser that is
	// only reachable through a package whose init is not interpreted (httpguts
	// through net/http) must still run
	pkgs := append([]*ssa.Package{}, m.world.initPkgs...)
	pkgs = append(pkgs, m.world.mainPkg)
	for _, pkg := range pkgs {
		fn := pkg.Func("init")
		if fn == nil {
			continue
		}
		func() {
			defer func() {
				if r := recover(); r != nil {
					ierr = fmt.Errorf("init of %s: %v\n  stack: %s", pkg.Pkg.Path(), describePanic(r), m.stack())
					if os.Getenv("GOSYM_DEBUG") != "" {
						debug.PrintStack()
					}
				}
			}()
			m.resetPathState(nil, nil)
			th := m.newThread(fn, nil, nil)
			m.cur = th
			th.call(nil, fn, nil, nil)
		}()
		if ierr != nil {
			fmt.Fprintf(os.Stderr, "warning: %v\n", ierr)
			ierr = nil
		}
	}
	m.maxSteps = m.world.cfg.maxSteps
	return nil
}

func describePanic(r interface{}) string {
	switch r := r.(type) {
	case pathEnd:
		return fmt.Sprintf("pathEnd(%s: %s)", r.kind, r.msg)
	case engineError:
		return "engineError: " + r.msg
	case targetPanic:
		return "targetPanic: " + showDepth(r.v, 0) + " at " + r.where
	}
	return fmt.Sprint(r)
}

func (m *machine) resetPathState(prefix []int64, mdl model) {
	m.prefix = prefix
	m.decs = m.decs[:0]
	m.model = model{}
	m.pendingModel = mdl
	if len(prefix) == 0 && mdl != nil {
		m.model = mdl
	}
	m.syms = m.syms[:0]
	m.steps = 0
	m.threads = nil
	m.cur = nil
	m.aborting = false
	m.liveNative = 0
	m.switches = 0
	m.preemptions = 0
	m.maxPreempt = 2
	m.maxThreads = 16
	m.exploreSched = false
	m.atomicDepth = 0
	m.schedTrace = nil
	m.deadlocked = false
	m.onDeadlock = nil
	m.mapRotate = 0
	m.panicLog = nil
	m.notes = nil
	m.reached = map[string]bool{}
	m.bounds = map[string]int64{}
	m.poolState = map[*value]*poolModel{}
	m.objState = map[interface{}]interface{}{}
	m.allocDepth = 0
	m.inconclusive = 0
	m.known = map[*term]bool{}
	m.racy = nil
	m.hangCheck = false
	m.poolChoices = 0
	m.maxSteps = m.world.cfg.maxSteps
	m.resetEnvModels()
}

func (m *machine) rollback() {
	for i := len(m.journal) - 1; i >= 0; i-- {
		*m.journal[i].slot = m.journal[i].old
	}
	m.journal = m.journal[:0]
	for i := len(m.undo) - 1; i >= 0; i-- {
		m.undo[i]()
	}
	m.undo = m.undo[:0]
}

// ---------------------------------------------------------------------------
// decisions

func (m *machine) inPrefix() bool { return len(m.decs) < len(m.prefix) }

func (m *machine) pushDec(d int64) {
	m.decs = append(m.decs, d)
	if len(m.decs) == len(m.prefix) && m.pendingModel != nil {
		m.model = m.pendingModel
		m.pendingModel = nil
	}
	if len(m.decs) > 100000 {
		panic(pathEnd{kind: endBoundExceeded, msg: "decision vector too long"})
	}
}

func (m *machine) enqueue(d int64, mdl model) {
	p := make([]int64, len(m.decs)+1)
	copy(p, m.decs)
	p[len(m.decs)] = d
	m.res.mu.Lock()
	m.res.forks++
	m.res.mu.Unlock()
	m.world.q.push(workItem{prefix: p, model: mdl})
}

func (m *machine) evalUnderModel(t *term) uint64 {
	return t.eval(m.model, map[*term]uint64{})
}

// branch decides a symbolic condition; returns the side taken on this path.
func (m *machine) branch(c *term, what string) bool {
	if c.isConst() {
		return c.k != 0
	}
	// a condition already decided on this path (same hash-consed term)
	if v, ok := m.known[c]; ok {
		return v
	}
	if m.inPrefix() {
		d := m.prefix[len(m.decs)]
		m.pushDec(d)
		if d != 0 {
			m.sol.assert(c)
		} else {
			m.sol.assert(m.tb.not(c))
		}
		return d != 0
	}
	take := m.evalUnderModel(c) != 0
	var other *term
	if take {
		other = m.tb.not(c)
	} else {
		other = c
	}
	res, mdl := m.sol.check(other, true)
	switch res {
	case resSat:
		if mdl == nil {
			m.inconclusive++
		} else {
			od := int64(1)
			if take {
				od = 0
			}
			m.enqueue(od, mdl)
		}
	case resUnknown:
		m.inconclusive++
		m.note("inconclusive branch feasibility at " + m.curPos())
	}
	if take {
		m.pushDec(1)
		m.sol.assert(c)
	} else {
		m.pushDec(0)
		m.sol.assert(m.tb.not(c))
	}
	return take
}

// chooseSym is an n-way choice made by the solver: a fresh symbolic variable
// constrained to [0,n) is case-split, so the choice is part of the model of
// the path (used for scheduling decisions: the schedule is a vector of solver
// variables).
func (m *machine) chooseSym(n int, what string) int {
	if n <= 1 {
		return 0
	}
	t := m.freshSym(what, 8)
	m.assume(m.tb.cmp(opUlt, t, m.tb.constBV(uint64(n), 8)))
	return int(m.concretizeTerm(t, what))
}

// choose is an n-way fork without constraints.
func (m *machine) choose(n int, what string) int {
	if n <= 1 {
		return 0
	}
	if m.inPrefix() {
		d := m.prefix[len(m.decs)]
		m.pushDec(d)
		return int(d)
	}
	for k := n - 1; k >= 1; k-- {
		m.enqueue(int64(k), m.model)
	}
	m.pushDec(0)
	return 0
}

func (m *machine) concretize(x sc, w int, what string) uint64 {
	if x.t == nil {
		return x.c
	}
	return m.concretizeTerm(x.t, what)
}

// concretizeTerm case-splits t over its feasible values.
func (m *machine) concretizeTerm(t *term, what string) uint64 {
	if t.isConst() {
		return t.k
	}
	tb := m.tb
	if m.inPrefix() {
		d := m.prefix[len(m.decs)]
		m.pushDec(d)
		m.sol.assert(tb.eq(t, tb.constBV(uint64(d), t.w)))
		return uint64(d) & mask(t.w)
	}
	v0 := m.evalUnderModel(t)
	// enumerate other values
	excl := tb.not(tb.eq(t, tb.constBV(v0, t.w)))
	n := 1
	for {
		res, mdl := m.sol.check(excl, true)
		if res == resUnsat {
			break
		}
		if res == resUnknown || mdl == nil {
			m.inconclusive++
			m.note("inconclusive case-split at " + m.curPos())
			break
		}
		v := t.eval(mdl, map[*term]uint64{})
		m.enqueue(int64(v), mdl)
		excl = tb.and(excl, tb.not(tb.eq(t, tb.constBV(v, t.w))))
		n++
		if n > m.maxSplit {
			panic(pathEnd{kind: endBoundExceeded, msg: fmt.Sprintf("case-split of %s at %s exceeds %d values", what, m.curPos(), m.maxSplit)})
		}
	}
	m.pushDec(int64(v0))
	m.sol.assert(tb.eq(t, tb.constBV(v0, t.w)))
	return v0
}

// assume adds a constraint; ends the path if infeasible.
func (m *machine) assume(c *term) {
	if c.isConst() {
		if c.k == 0 {
			panic(pathEnd{kind: endAssumeFalse})
		}
		return
	}
	if m.inPrefix() {
		// assumptions inside the prefix were feasible when first executed
		m.sol.assert(c)
		return
	}
	if m.evalUnderModel(c) == 0 {
		res, mdl := m.sol.check(c, true)
		if res == resUnsat {
			panic(pathEnd{kind: endAssumeFalse})
		}
		if res == resUnknown || mdl == nil {
			panic(pathEnd{kind: endInconclusive, msg: "assume feasibility unknown at " + m.curPos()})
		}
		m.model = mdl
	}
	m.sol.assert(c)
}

func (m *machine) freshSym(tag string, w int) *term {
	name := fmt.Sprintf("s%d_%s", len(m.syms), sanitize(tag))
	t := m.tb.sym(name, w)
	m.syms = append(m.syms, &symInfo{Name: name, Tag: tag, W: w, t: t})
	return t
}

func sanitize(s string) string {
	var sb strings.Builder
	for _, r := range s {
		if (r >= 'a' && r <= 'z') || (r >= 'A' && r <= 'Z') || (r >= '0' && r <= '9') || r == '_' {
			sb.WriteRune(r)
		} else {
			sb.WriteByte('_')
		}
	}
	return sb.String()
}

func (m *machine) note(s string) {
	if len(m.notes) < 200 {
		m.notes = append(m.notes, s)
	}
}

func (m *machine) inputsUnder(mdl model) []inputVal {
	var r []inputVal
	for _, s := range m.syms {
		if cv, ok := m.chosen[s.Name]; ok {
			r = append(r, inputVal{Tag: s.Tag, Name: s.Name, W: s.W, Value: cv})
			continue
		}
		r = append(r, inputVal{Tag: s.Tag, Name: s.Name, W: s.W, Value: mdl[s.Name] & maskOrBool(s.W)})
	}
	return r
}

func maskOrBool(w int) uint64 {
	if w == 0 {
		return 1
	}
	return mask(w)
}

// violation records a property violation on the current path (the current
// model is a witness) and ends the path.
func (m *machine) violation(label, msg string) {
	m.violationWith(label, "", msg, m.model)
}

func (m *machine) violationWith(label, discr, msg string, mdl model) {
	// while replaying a prefix the model is not yet in force: fetch one
	if m.inPrefix() || mdl == nil {
		res, md := m.sol.check(nil, true)
		if res != resSat || md == nil {
			panic(pathEnd{kind: endInconclusive, msg: "no model for violation " + label})
		}
		mdl = md
	}
	rec := &violationRec{PoolChoices: m.poolChoices, Label: label, Discr: discr, Msg: msg, Harness: m.harness, Inputs: m.inputsUnder(mdl),
		Decs: append([]int64(nil), m.decs...), Notes: append([]string(nil), m.notes...), Where: m.curPos(), Count: 1}
	m.res.mu.Lock()
	key := m.harness + "|" + label + "|" + discr
	if old, ok := m.res.violations[key]; ok {
		old.Count++
		// keep the one with the shortest decision vector (simplest)
		if len(rec.Decs) < len(old.Decs) {
			rec.Count = old.Count
			m.res.violations[key] = rec
		}
	} else {
		m.res.violations[key] = rec
	}
	m.res.mu.Unlock()
	panic(pathEnd{kind: endViolation, msg: label + ": " + msg})
}

func (m *machine) logPanic(p targetPanic, fr *frame) {
	if p.goexit {
		return
	}
	if len(m.panicLog) < 64 {
		m.panicLog = append(m.panicLog, fmt.Sprintf("%s at %s", m.panicString(p.v), p.where))
	}
}

func (m *machine) panicString(v value) string {
	if it, ok := v.(iface); ok {
		if s, ok := it.v.(string); ok {
			return s
		}
		if e, ok := it.v.(*extErr); ok {
			return e.name
		}
		if it.t != nil {
			return "panic(" + it.t.String() + ")"
		}
	}
	return showDepth(v, 0)
}

func (m *machine) noteFn(fn *ssa.Function) {
	if m.fnSeen == nil {
		m.fnSeen = map[*ssa.Function]bool{}
	}
	if !m.fnSeen[fn] {
		m.fnSeen[fn] = true
	}
}

// ---------------------------------------------------------------------------
// running one path

func (m *machine) runPath(entry *ssa.Function, it workItem) (kind endKind, msg string) {
	m.epoch++
	m.sol.newPath()
	m.resetPathState(it.prefix, it.model)
	m.harness = entry.Name()
	main := m.newThread(entry, nil, nil)
	main.name = "main"
	kind, msg = m.runThreads(main)
	m.lastRet = main.ret
	m.rollback()
	return
}

// runThreads drives the baton: it starts main and waits for thread exits.
func (m *machine) runThreads(main *thread) (kind endKind, msg string) {
	m.startThread(main)
	main.wake <- struct{}{}
	kind = endDone
	for {
		t := <-m.threadExit
		m.liveNative--
		ended := false
		if t.result != nil {
			switch r := t.result.(type) {
			case pathEnd:
				if r.kind != endAbortThread {
					kind, msg = r.kind, r.msg
					ended = true
				}
			case engineError:
				kind, msg = endEngineError, r.msg
				ended = true
			case targetPanic:
				if r.goexit {
					break
				}
				// uncaught panic in a goroutine crashes the program
				ended = true
				func() {
					defer func() {
						if rr := recover(); rr != nil {
							if pe, ok := rr.(pathEnd); ok {
								kind, msg = pe.kind, pe.msg
							} else {
								kind, msg = endEngineError, fmt.Sprint(rr)
							}
						}
					}()
					m.cur = t
					m.violation("uncaught-panic", m.panicString(r.v)+" at "+r.where)
				}()
			default:
				kind, msg = endEngineError, fmt.Sprintf("native panic: %v", r)
				if s, ok := t.result.(fmt.Stringer); ok {
					msg += s.String()
				}
				ended = true
			}
		}
		if !ended {
			if t == main {
				// main returned: path complete (other threads are abandoned,
				// as in Go when main returns)
				ended = true
			} else {
				var next *thread
				func() {
					defer func() {
						if rr := recover(); rr != nil {
							if pe, ok := rr.(pathEnd); ok {
								kind, msg = pe.kind, pe.msg
							} else {
								kind, msg = endEngineError, fmt.Sprint(rr)
							}
							ended = true
						}
					}()
					next = m.afterExit(t)
					if next == nil {
						m.cur = t
						m.deadlock(t)
					}
				}()
				if !ended {
					next.wake <- struct{}{}
					continue
				}
			}
		}
		// abort all other parked threads
		m.aborting = true
		for _, o := range m.threads {
			if o.started && !o.done {
				o.wake <- struct{}{}
				x := <-m.threadExit
				_ = x
				m.liveNative--
			}
		}
		// some threads may have exited in a different order; drain
		for m.liveNative > 0 {
			<-m.threadExit
			m.liveNative--
		}
		return
	}
}

// ---------------------------------------------------------------------------
// exploring a harness

type exploreOutcome struct {
	res  *results
	wall time.Duration
	sol  solverStats
	timedOut bool
}

func explore(w *world, entry *ssa.Function, res *results) (timedOut bool, stats solverStats, err error) {
	q := newQueue()
	w.q = q
	q.push(workItem{prefix: w.cfg.initialPrefix})
	var wg sync.WaitGroup
	var smu sync.Mutex
	nw := w.cfg.workers
	errs := make(chan error, nw)
	for i := 0; i < nw; i++ {
		wg.Add(1)
		go func(id int) {
			defer wg.Done()
			m, e := w.getMachine(id)
			if e != nil {
				errs <- e
				q.stop()
				return
			}
			m.res = res
			before := *m.sol.stats
			for {
				it, ok := q.pop()
				if !ok {
					break
				}
				if !w.cfg.deadline.IsZero() && time.Now().After(w.cfg.deadline) {
					timedOut = true
					q.done()
					q.stop()
					break
				}
				kind, msg := m.runPath(entry, it)
				res.mu.Lock()
				res.paths++
				if kind == endDone && m.inconclusive > 0 {
					kind = endInconclusive
					msg = "feasibility query unknown: " + strings.Join(m.notes, "; ")
				}
				res.byKind[kind.String()]++
				if kind != endDone && kind != endAssumeFalse && kind != endViolation {
					if len(msg) > 300 {
						msg = msg[:300]
					}
					res.msgs[kind.String()+": "+msg]++
				}
				for k := range m.reached {
					res.reached[k]++
				}
				for k, v := range m.bounds {
					if old, ok := res.bounds[k]; !ok || v > old {
						res.bounds[k] = v
					}
				}
				res.steps += int64(m.steps)
				if len(m.decs) > res.maxDecs {
					res.maxDecs = len(m.decs)
				}
				if kind == endDone {
					sig := fmt.Sprint(m.decs)
					if len(res.samples) < 3 || (res.paths%97 == 0 && len(res.samples) < 6) {
						res.samples = append(res.samples, m.sample())
					}
					_ = sig
				}
				if w.cfg.maxPaths > 0 && res.paths >= w.cfg.maxPaths {
					timedOut = true
					q.stop()
				}
				res.mu.Unlock()
				q.done()
			}
			smu.Lock()
			after := *m.sol.stats
			stats.queries += after.queries - before.queries
			stats.sat += after.sat - before.sat
			stats.unsat += after.unsat - before.unsat
			stats.unknown += after.unknown - before.unknown
			stats.errors += after.errors - before.errors
			stats.wall += after.wall - before.wall
			for fn := range m.fnSeen {
				if fn.Pkg != nil || fn.Parent() != nil {
					n := 0
					for _, b := range fn.Blocks {
						n += len(b.Instrs)
					}
					res.mu.Lock()
					res.fnsEncoded[fn.String()] = n
					res.mu.Unlock()
				}
			}
			m.fnSeen = nil
			smu.Unlock()
		}(i)
	}
	wg.Wait()
	select {
	case err = <-errs:
	default:
	}
	return
}

func (m *machine) sample() map[string]interface{} {
	s := map[string]interface{}{"harness": m.harness, "decisions": len(m.decs)}
	in := map[string]interface{}{}
	for i, iv := range m.inputsUnder(m.model) {
		if i >= 24 {
			in["…"] = fmt.Sprintf("%d more", len(m.syms)-i)
			break
		}
		in[iv.Name] = iv.Value
	}
	s["inputs_model"] = in
	if len(m.notes) > 0 {
		n := m.notes
		if len(n) > 12 {
			n = n[:12]
		}
		s["notes"] = n
	}
	var rs []string
	for k := range m.reached {
		rs = append(rs, k)
	}
	sort.Strings(rs)
	s["reached"] = rs
	return s
}

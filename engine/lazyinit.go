package main

// Lazy initialisation of single globals of packages whose initialiser is not
// interpreted as a whole (net/http, ...): when such a global is read, the
// backward slice of the one Store that initialises it is taken from the
// package's init function and executed. A slice that depends on control flow
// (phi), or on more than one store, is not attempted: the read stays unsupported.

import (
	"sort"
	"strings"
	"sync"

	"golang.org/x/tools/go/ssa"
)

type lazySlice struct {
	fn     *ssa.Function
	instrs []ssa.Instruction
}

var lazySliceCache = map[*ssa.Global]*lazySlice{}
var lazyMu sync.Mutex

func computeLazySlice(g *ssa.Global) *lazySlice {
	if g.Pkg == nil {
		return nil
	}
	fn := g.Pkg.Func("init")
	if fn == nil {
		return nil
	}
	// explicit init functions that touch g: not sliceable
	for name, mem := range g.Pkg.Members {
		if f, isFn := mem.(*ssa.Function); isFn && strings.HasPrefix(name, "init#") {
			for _, b := range f.Blocks {
				for _, in := range b.Instrs {
					for _, op := range in.Operands(nil) {
						if op != nil && *op == ssa.Value(g) {
							return nil
						}
					}
				}
			}
		}
	}
	pos := map[ssa.Instruction]int{}
	n := 0
	var roots []ssa.Instruction
	for _, b := range fn.Blocks {
		for _, in := range b.Instrs {
			pos[in] = n
			n++
			switch x := in.(type) {
			case *ssa.Store:
				if x.Addr == ssa.Value(g) {
					roots = append(roots, in)
				} else if x.Val == ssa.Value(g) {
					return nil
				}
			case *ssa.FieldAddr:
				if x.X == ssa.Value(g) {
					roots = append(roots, in)
				}
			case *ssa.IndexAddr:
				if x.X == ssa.Value(g) {
					roots = append(roots, in)
				}
			case *ssa.UnOp:
				// a read of g initialises something else
			default:
				for _, op := range in.Operands(nil) {
					if op != nil && *op == ssa.Value(g) {
						return nil // address escapes inside init
					}
				}
			}
		}
	}
	if len(roots) == 0 {
		return &lazySlice{fn: fn} // only read by the initialiser: the zero value is right
	}
	set := map[ssa.Instruction]bool{}
	var work []ssa.Instruction
	add := func(in ssa.Instruction) {
		if in.Parent() != fn || set[in] {
			return
		}
		set[in] = true
		work = append(work, in)
	}
	for _, r := range roots {
		add(r)
	}
	ok := true
	for len(work) > 0 && ok {
		in := work[len(work)-1]
		work = work[:len(work)-1]
		switch in.(type) {
		case *ssa.Phi, *ssa.If, *ssa.Jump, *ssa.Return, *ssa.Select, *ssa.Go, *ssa.Defer, *ssa.RunDefers, *ssa.Panic:
			ok = false
			continue
		}
		for _, op := range in.Operands(nil) {
			if op == nil || *op == nil {
				continue
			}
			if oi, isInstr := (*op).(ssa.Instruction); isInstr {
				add(oi)
			}
		}
		// writes through addresses that belong to the slice
		if v, isVal := in.(ssa.Value); isVal {
			switch in.(type) {
			case *ssa.Alloc, *ssa.MakeMap, *ssa.MakeSlice, *ssa.IndexAddr, *ssa.FieldAddr, *ssa.Slice:
				if refs := v.Referrers(); refs != nil {
					for _, r := range *refs {
						switch r := r.(type) {
						case *ssa.Store:
							if r.Addr == v {
								add(r)
							}
						case *ssa.MapUpdate:
							if r.Map == v {
								add(r)
							}
						case *ssa.IndexAddr:
							if r.X == v {
								add(r)
							}
						case *ssa.FieldAddr:
							if r.X == v {
								add(r)
							}
						}
					}
				}
			}
		}
	}
	if !ok || len(set) > 4000 {
		return nil
	}
	ls := &lazySlice{fn: fn}
	for in := range set {
		ls.instrs = append(ls.instrs, in)
	}
	sort.Slice(ls.instrs, func(i, j int) bool { return pos[ls.instrs[i]] < pos[ls.instrs[j]] })
	return ls
}

// tryLazyInit initialises the global owning o, if a slice exists. It reports
// whether the global is now readable.
func (m *machine) tryLazyInit(o *obj) bool {
	g := o.lazyG
	if g == nil || m.cur == nil {
		return false
	}
	lazyMu.Lock()
	ls, seen := lazySliceCache[g]
	if !seen {
		ls = computeLazySlice(g)
		lazySliceCache[g] = ls
	}
	lazyMu.Unlock()
	if ls == nil {
		return false
	}
	o.uninit = false
	m.undo = append(m.undo, func() { o.uninit = true })
	th := m.cur
	info := getFnInfo(ls.fn)
	fr := &frame{th: th, caller: th.fr, fn: ls.fn, info: info}
	if th.fr != nil {
		fr.depth = th.fr.depth + 1
	}
	fr.regs = make([]value, info.nregs)
	for _, l := range ls.fn.Locals {
		sp := new(value)
		*sp = m.zero(deref(l.Type()))
		fr.regs[info.reg[l]] = ptr{slot: sp, own: m.newObj("local")}
	}
	saved := th.fr
	th.fr = fr
	for _, in := range ls.instrs {
		fr.block = in.Block()
		th.visit(fr, in)
	}
	th.fr = saved
	m.lazyInits++
	return true
}

package main

// Engine-side models of functions that are not interpreted from SSA: sync,
// sync/atomic, bytealg, errors.Is/As, fmt, runtime, time (virtual clock), the
// harness API (verif*), and redirection of syscall.* / os.File methods to the
// in-package kernel model (vk_*).

import (
	"fmt"
	"go/types"
	"os"
	"strings"

	"golang.org/x/tools/go/ssa"
)

type intrinsic func(th *thread, caller *frame, fn *ssa.Function, args []value, site ssa.Instruction) value

var intrinsics map[string]intrinsic

type extErr struct{ name string }

func (m *machine) inAllocator() bool { return m.allocDepth > 0 }

// lateGlobal initialises a global of a package whose init was not interpreted.
func (m *machine) lateGlobal(g *ssa.Global, p ptr) {
	t := deref(g.Type())
	// error-typed sentinels get a unique opaque error value
	if types.Identical(t, types.Universe.Lookup("error").Type()) {
		name := g.Pkg.Pkg.Path() + "." + g.Name()
		e := &extErr{name: name}
		m.extErrs[name] = e
		*p.slot = iface{t: m.extErrType, v: e}
		return
	}
	if g.Pkg != nil && !initTouched(g.Pkg)[g] {
		return // never written by its package initialiser: zero is right
	}
	p.own.what = "global " + g.String() + " (package init not interpreted)"
	p.own.uninit = true
	p.own.lazyG = g
}

func (m *machine) namedExtErr(name string) *extErr {
	if e, ok := m.extErrs[name]; ok {
		return e
	}
	e := &extErr{name: name}
	m.extErrs[name] = e
	return e
}

func pkgPathOf(fn *ssa.Function) string {
	if fn.Pkg != nil {
		return fn.Pkg.Pkg.Path()
	}
	if o := fn.Origin(); o != nil && o.Pkg != nil {
		return o.Pkg.Pkg.Path()
	}
	if fn.Object() != nil && fn.Object().Pkg() != nil {
		return fn.Object().Pkg().Path()
	}
	return ""
}

func (m *machine) tryIntrinsic(th *thread, caller *frame, fn *ssa.Function, args []value, site ssa.Instruction) (value, bool) {
	name := fn.String()
	if strings.HasPrefix(fn.Name(), "verif") && fn.Signature.Recv() == nil {
		if h, ok := verifAPI[fn.Name()]; ok {
			return h(th, caller, fn, args, site), true
		}
	}
	if h, ok := intrinsics[name]; ok {
		// an intrinsic reads its operands directly: a global of an uninterpreted
		// package passed by address is initialised (or the path ends) first
		for _, a := range args {
			if p, isPtr := a.(ptr); isPtr && p.own != nil && p.own.uninit && !m.tryLazyInit(p.own) {
				panic(pathEnd{kind: endUnsupported, msg: "use of " + p.own.what})
			}
		}
		return h(th, caller, fn, args, site), true
	}
	pp := pkgPathOf(fn)
	if fn.Blocks == nil && strings.HasPrefix(fn.Name(), "runtime_") {
		return zeroResult(m, fn), true
	}
	switch pp {
	case "syscall":
		if r, ok := m.redirect(th, caller, "vk_"+fn.Name(), fn, args, site); ok {
			return r, true
		}
		switch fn.Name() {
		case "Getrlimit", "Setrlimit":
			return iface{t: m.extErrType, v: m.namedExtErr("syscall." + fn.Name() + " not modelled")}, true
		case "Getpagesize":
			return mkInt(4096), true
		}
	case "os":
		if recv := fn.Signature.Recv(); recv != nil && strings.Contains(recv.Type().String(), "os.File") {
			if r, ok := m.redirect(th, caller, "vk_File_"+fn.Name(), fn, args, site); ok {
				return r, true
			}
		}
		if r, ok := m.redirect(th, caller, "vk_os_"+fn.Name(), fn, args, site); ok {
			return r, true
		}
	case "github.com/lesismal/nbio/logging", "log":
		return zeroResult(m, fn), true
	case "runtime":
		switch fn.Name() {
		case "Stack":
			return mkInt(0), true
		case "Caller":
			return tuple{mkInt(0), "", mkInt(0), mkBool(false)}, true
		case "NumCPU", "GOMAXPROCS":
			return mkInt(4), true
		case "LockOSThread", "UnlockOSThread", "GC", "KeepAlive", "SetFinalizer", "Gosched":
			if fn.Name() == "Gosched" {
				th.yield("gosched")
			}
			return nil, true
		case "NumGoroutine":
			n := 0
			for _, t := range m.threads {
				if !t.done {
					n++
				}
			}
			return mkInt(uint64(n)), true
		case "Goexit":
			panic(targetPanic{goexit: true})
		}
	case "fmt":
		switch fn.Name() {
		case "Sprintf", "Sprint", "Sprintln":
			return m.fmtString(args), true
		case "Errorf":
			return m.fmtErrorf(args), true
		case "Printf", "Println", "Print", "Fprintf", "Fprintln", "Fprint":
			return tuple{mkInt(0), iface{}}, true
		}
	case "time":
		if r, ok := m.timeIntrinsic(th, fn, args, site); ok {
			return r, true
		}
	case "math/rand":
		switch fn.Name() {
		case "Uint32":
			return m.fromTerm(m.freshSym("rand_u32", 32)), true
		case "Int", "Int63":
			t := m.freshSym("rand_int", 64)
			m.assume(m.tb.cmp(opSle, m.tb.constBV(0, 64), t))
			return m.fromTerm(t), true
		case "Intn":
			t := m.freshSym("rand_intn", 64)
			n := args[0].(sc)
			m.assume(m.tb.cmp(opSle, m.tb.constBV(0, 64), t))
			m.assume(m.tb.cmp(opSlt, t, m.toTerm(n, 64)))
			return m.fromTerm(t), true
		}
	case "sync":
		if strings.HasPrefix(fn.Name(), "runtime_") && fn.Blocks == nil {
			return zeroResult(m, fn), true
		}
	case "crypto/internal/boring", "crypto/internal/boring/sig":
		if fn.Blocks == nil || fn.Name() == "Unreachable" || fn.Name() == "UnreachableExceptTests" {
			return zeroResult(m, fn), true
		}
	case "internal/race", "internal/msan", "internal/asan":
		return zeroResult(m, fn), true
	case "internal/godebug":
		switch fn.Name() {
		case "Value":
			return "", true
		case "IncNonDefault":
			return nil, true
		case "New":
			sp := new(value)
			*sp = m.zero(deref(fn.Signature.Results().At(0).Type()))
			return ptr{slot: sp, own: m.newObj("godebug")}, true
		}
	}
	return nil, false
}

func zeroResult(m *machine, fn *ssa.Function) value {
	res := fn.Signature.Results()
	switch res.Len() {
	case 0:
		return nil
	case 1:
		return m.zero(res.At(0).Type())
	}
	return m.zero(res)
}

// redirect calls the function `name` of the package under test, if it exists.
func (m *machine) redirect(th *thread, caller *frame, name string, fn *ssa.Function, args []value, site ssa.Instruction) (value, bool) {
	for _, pkg := range m.world.targetPkgs {
		if f := pkg.Func(name); f != nil {
			if f.Signature.Params().Len() != len(args) {
				panic(engineError{fmt.Sprintf("redirect %s: arity mismatch (%d vs %d)", name, f.Signature.Params().Len(), len(args))})
			}
			return th.call(caller, f, args, site), true
		}
	}
	return nil, false
}

func (m *machine) fmtString(args []value) value {
	// opaque, but keep concrete format for debugging
	if len(args) > 0 {
		if s, ok := args[0].(string); ok {
			return "fmt:" + s
		}
	}
	return "fmt:?"
}

// fmtErrorf builds an *extErr wrapping the first error argument found after %w.
func (m *machine) fmtErrorf(args []value) value {
	format, _ := args[0].(string)
	e := &extErr{name: "fmt.Errorf(" + format + ")"}
	w := &wrapErr{extErr: e}
	if strings.Contains(format, "%w") {
		if va, ok := args[1].(slicev); ok {
			for i := 0; i < va.len; i++ {
				if it, ok := va.arr.elems[va.off+i].(iface); ok && it.t != nil {
					if m.implements(it.t, errorIface) {
						w.inner = it
					}
				}
			}
		}
	}
	m.wraps[e] = w
	return iface{t: m.extErrType, v: e}
}

type wrapErr struct {
	*extErr
	inner iface
}

var errorIface = types.Universe.Lookup("error").Type().Underlying().(*types.Interface)

// ---------------------------------------------------------------------------

func fieldIndex(t types.Type, name string) int {
	st := t.Underlying().(*types.Struct)
	for i := 0; i < st.NumFields(); i++ {
		if st.Field(i).Name() == name {
			return i
		}
	}
	panic(engineError{"no field " + name + " in " + t.String()})
}

type mutexState struct {
	locked  bool
	readers int
	owner   int
}

func (m *machine) mutexOf(p ptr) *mutexState {
	if p.slot == nil {
		m.goPanic("runtime error: invalid memory address or nil pointer dereference (mutex)")
	}
	if s, ok := m.objState[p.slot]; ok {
		return s.(*mutexState)
	}
	s := &mutexState{}
	m.objState[p.slot] = s
	return s
}

type wgState struct{ n int64 }
type onceState struct{ done, running bool }
type poolModel struct{ items []value }

type condState struct {
	waiters []*condWaiter
}
type condWaiter struct{ signalled bool }

func init() {
	intrinsics = map[string]intrinsic{
		// ---- sync.Mutex
		"(*sync.Mutex).Lock": func(th *thread, caller *frame, fn *ssa.Function, args []value, site ssa.Instruction) value {
			s := th.m.mutexOf(args[0].(ptr))
			th.yield("lock")
			th.block("mutex", func() bool { return !s.locked })
			s.locked = true
			s.owner = th.id
			return nil
		},
		"(*sync.Mutex).TryLock": func(th *thread, caller *frame, fn *ssa.Function, args []value, site ssa.Instruction) value {
			s := th.m.mutexOf(args[0].(ptr))
			th.yield("trylock")
			if s.locked {
				return mkBool(false)
			}
			s.locked = true
			s.owner = th.id
			return mkBool(true)
		},
		"(*sync.Mutex).Unlock": func(th *thread, caller *frame, fn *ssa.Function, args []value, site ssa.Instruction) value {
			s := th.m.mutexOf(args[0].(ptr))
			if !s.locked {
				th.m.violation("fatal-unlock", "sync: unlock of unlocked mutex at "+th.m.curPos())
			}
			s.locked = false
			th.yield("unlock")
			return nil
		},
		"(*sync.RWMutex).Lock": func(th *thread, caller *frame, fn *ssa.Function, args []value, site ssa.Instruction) value {
			s := th.m.mutexOf(args[0].(ptr))
			th.yield("rwlock")
			th.block("rwmutex-w", func() bool { return !s.locked && s.readers == 0 })
			s.locked = true
			return nil
		},
		"(*sync.RWMutex).Unlock": func(th *thread, caller *frame, fn *ssa.Function, args []value, site ssa.Instruction) value {
			s := th.m.mutexOf(args[0].(ptr))
			if !s.locked {
				th.m.violation("fatal-unlock", "sync: Unlock of unlocked RWMutex at "+th.m.curPos())
			}
			s.locked = false
			th.yield("rwunlock")
			return nil
		},
		"(*sync.RWMutex).RLock": func(th *thread, caller *frame, fn *ssa.Function, args []value, site ssa.Instruction) value {
			s := th.m.mutexOf(args[0].(ptr))
			th.yield("rlock")
			th.block("rwmutex-r", func() bool { return !s.locked })
			s.readers++
			return nil
		},
		"(*sync.RWMutex).RUnlock": func(th *thread, caller *frame, fn *ssa.Function, args []value, site ssa.Instruction) value {
			s := th.m.mutexOf(args[0].(ptr))
			if s.readers <= 0 {
				th.m.violation("fatal-unlock", "sync: RUnlock of unlocked RWMutex at "+th.m.curPos())
			}
			s.readers--
			th.yield("runlock")
			return nil
		},
		// ---- sync.WaitGroup
		"(*sync.WaitGroup).Add": func(th *thread, caller *frame, fn *ssa.Function, args []value, site ssa.Instruction) value {
			m := th.m
			s := m.wgOf(args[0].(ptr))
			d := args[1].(sc)
			if d.t != nil {
				panic(pathEnd{kind: endUnsupported, msg: "symbolic WaitGroup delta"})
			}
			s.n += signExt(d.c, 64)
			if s.n < 0 {
				m.goPanic("sync: negative WaitGroup counter")
			}
			th.yield("wg-add")
			return nil
		},
		"(*sync.WaitGroup).Done": func(th *thread, caller *frame, fn *ssa.Function, args []value, site ssa.Instruction) value {
			m := th.m
			s := m.wgOf(args[0].(ptr))
			s.n--
			if s.n < 0 {
				m.goPanic("sync: negative WaitGroup counter")
			}
			th.yield("wg-done")
			return nil
		},
		"(*sync.WaitGroup).Wait": func(th *thread, caller *frame, fn *ssa.Function, args []value, site ssa.Instruction) value {
			s := th.m.wgOf(args[0].(ptr))
			th.yield("wg-wait")
			th.block("waitgroup", func() bool { return s.n == 0 })
			return nil
		},
		// ---- sync.Once
		"(*sync.Once).Do": func(th *thread, caller *frame, fn *ssa.Function, args []value, site ssa.Instruction) value {
			m := th.m
			p := args[0].(ptr)
			var s *onceState
			if x, ok := m.objState[p.slot]; ok {
				s = x.(*onceState)
			} else {
				s = &onceState{}
				m.objState[p.slot] = s
			}
			if s.done {
				return nil
			}
			if s.running {
				th.block("once", func() bool { return s.done })
				return nil
			}
			s.running = true
			defer func() { s.done = true }()
			th.call(caller, args[1], nil, site)
			return nil
		},
		// ---- sync.Pool
		"(*sync.Pool).Get": func(th *thread, caller *frame, fn *ssa.Function, args []value, site ssa.Instruction) value {
			m := th.m
			p := args[0].(ptr)
			pm := m.poolOf(p)
			n := len(pm.items)
			pick := -1
			switch m.poolMode {
			case poolLIFO:
				if n > 0 {
					pick = n - 1
				}
			case poolNondet:
				if n > 0 {
					k := m.choose(n+1, "pool-get")
					m.poolChoices++
					if k < n {
						pick = n - 1 - k
					}
				}
			case poolAlwaysNew:
			}
			if pick >= 0 {
				v := pm.items[pick]
				pm.items = append(pm.items[:pick:pick], pm.items[pick+1:]...)
				return v
			}
			st := (*p.slot).(structv)
			newFn := st[fieldIndex(deref(fn.Signature.Recv().Type()), "New")]
			if newFn == nil {
				return iface{}
			}
			return th.call(caller, newFn, nil, site)
		},
		"(*sync.Pool).Put": func(th *thread, caller *frame, fn *ssa.Function, args []value, site ssa.Instruction) value {
			m := th.m
			x := args[1].(iface)
			if x.t == nil {
				return nil
			}
			pm := m.poolOf(args[0].(ptr))
			pm.items = append(pm.items, x)
			return nil
		},
		// ---- sync.Cond
		"sync.NewCond": func(th *thread, caller *frame, fn *ssa.Function, args []value, site ssa.Instruction) value {
			m := th.m
			t := deref(fn.Signature.Results().At(0).Type())
			sp := new(value)
			z := m.zero(t).(structv)
			z[fieldIndex(t, "L")] = args[0]
			*sp = z
			return ptr{slot: sp, own: m.newObj("cond")}
		},
		"(*sync.Cond).Wait": func(th *thread, caller *frame, fn *ssa.Function, args []value, site ssa.Instruction) value {
			m := th.m
			p := args[0].(ptr)
			cs := m.condOf(p)
			st := (*p.slot).(structv)
			L := st[fieldIndex(deref(fn.Signature.Recv().Type()), "L")].(iface)
			unlock := m.lookupMethod(L.t, lockerMethod(L.t, "Unlock"))
			lock := m.lookupMethod(L.t, lockerMethod(L.t, "Lock"))
			w := &condWaiter{}
			cs.waiters = append(cs.waiters, w)
			th.call(caller, unlock, []value{L.v}, site)
			th.block("cond", func() bool { return w.signalled })
			th.call(caller, lock, []value{L.v}, site)
			return nil
		},
		"(*sync.Cond).Signal": func(th *thread, caller *frame, fn *ssa.Function, args []value, site ssa.Instruction) value {
			cs := th.m.condOf(args[0].(ptr))
			if len(cs.waiters) > 0 {
				cs.waiters[0].signalled = true
				cs.waiters = cs.waiters[1:]
			}
			th.yield("cond-signal")
			return nil
		},
		"(*sync.Cond).Broadcast": func(th *thread, caller *frame, fn *ssa.Function, args []value, site ssa.Instruction) value {
			cs := th.m.condOf(args[0].(ptr))
			for _, w := range cs.waiters {
				w.signalled = true
			}
			cs.waiters = nil
			th.yield("cond-broadcast")
			return nil
		},
		// ---- errors
		"errors.Is": func(th *thread, caller *frame, fn *ssa.Function, args []value, site ssa.Instruction) value {
			return mkBool(th.errorsIs(caller, args[0].(iface), args[1].(iface), site, 0))
		},
		"errors.As": func(th *thread, caller *frame, fn *ssa.Function, args []value, site ssa.Instruction) value {
			return mkBool(th.errorsAs(caller, args[0].(iface), args[1].(iface), site))
		},
		"errors.Unwrap": func(th *thread, caller *frame, fn *ssa.Function, args []value, site ssa.Instruction) value {
			return th.unwrapErr(caller, args[0].(iface), site)
		},
		// ---- bytealg and friends
		"internal/bytealg.IndexByte": func(th *thread, caller *frame, fn *ssa.Function, args []value, site ssa.Instruction) value {
			s := args[0].(slicev)
			b := make([]value, s.len)
			for i := range b {
				b[i] = th.m.loadElem(s.arr, s.off+i)
			}
			return th.m.indexByte(b, args[1].(sc))
		},
		"internal/bytealg.IndexByteString": func(th *thread, caller *frame, fn *ssa.Function, args []value, site ssa.Instruction) value {
			return th.m.indexByte(strBytes(args[0]), args[1].(sc))
		},
		"internal/bytealg.Equal": func(th *thread, caller *frame, fn *ssa.Function, args []value, site ssa.Instruction) value {
			return th.m.bytesEqual(args[0].(slicev), args[1].(slicev))
		},
		"bytes.Equal": func(th *thread, caller *frame, fn *ssa.Function, args []value, site ssa.Instruction) value {
			return th.m.bytesEqual(args[0].(slicev), args[1].(slicev))
		},
		"internal/bytealg.CountString": func(th *thread, caller *frame, fn *ssa.Function, args []value, site ssa.Instruction) value {
			m := th.m
			b := strBytes(args[0])
			c := args[1].(sc)
			acc := m.tb.constBV(0, 64)
			for _, x := range b {
				e := m.equals(types.Typ[types.Uint8], x, c).(sc)
				acc = m.tb.bin(opAdd, acc, m.tb.ite(m.toTerm(e, 0), m.tb.constBV(1, 64), m.tb.constBV(0, 64)))
			}
			return m.fromTerm(acc)
		},
		"internal/bytealg.Count": func(th *thread, caller *frame, fn *ssa.Function, args []value, site ssa.Instruction) value {
			m := th.m
			s := args[0].(slicev)
			c := args[1].(sc)
			acc := m.tb.constBV(0, 64)
			for i := 0; i < s.len; i++ {
				e := m.equals(types.Typ[types.Uint8], m.loadElem(s.arr, s.off+i), c).(sc)
				acc = m.tb.bin(opAdd, acc, m.tb.ite(m.toTerm(e, 0), m.tb.constBV(1, 64), m.tb.constBV(0, 64)))
			}
			return m.fromTerm(acc)
		},
		"internal/bytealg.MakeNoZero": func(th *thread, caller *frame, fn *ssa.Function, args []value, site ssa.Instruction) value {
			m := th.m
			n := int(m.concretize(args[0].(sc), 64, "MakeNoZero"))
			a := m.newArr(n, "MakeNoZero")
			for i := range a.elems {
				a.elems[i] = smallInts[0]
			}
			return slicev{arr: a, len: n, cap: n}
		},
		"internal/bytealg.IndexString": func(th *thread, caller *frame, fn *ssa.Function, args []value, site ssa.Instruction) value {
			return th.m.indexString(strBytes(args[0]), strBytes(args[1]))
		},
		"internal/bytealg.Index": func(th *thread, caller *frame, fn *ssa.Function, args []value, site ssa.Instruction) value {
			m := th.m
			return m.indexString(m.sliceBytes(args[0].(slicev)), m.sliceBytes(args[1].(slicev)))
		},
		"internal/bytealg.Cutover": func(th *thread, caller *frame, fn *ssa.Function, args []value, site ssa.Instruction) value {
			return mkInt(1 << 30)
		},
		"internal/bytealg.Compare": func(th *thread, caller *frame, fn *ssa.Function, args []value, site ssa.Instruction) value {
			m := th.m
			a, b := mkStr(m.sliceBytes(args[0].(slicev))), mkStr(m.sliceBytes(args[1].(slicev)))
			lt := m.strBinop(tokLSS, a, b).(sc)
			eq := m.equals(nil, a, b).(sc)
			r := m.tb.ite(m.toTerm(lt, 0), m.tb.constBV(^uint64(0), 64), m.tb.ite(m.toTerm(eq, 0), m.tb.constBV(0, 64), m.tb.constBV(1, 64)))
			return m.fromTerm(r)
		},
		"internal/bytealg.CompareString": func(th *thread, caller *frame, fn *ssa.Function, args []value, site ssa.Instruction) value {
			m := th.m
			a, b := mkStr(strBytes(args[0])), mkStr(strBytes(args[1]))
			lt := m.strBinop(tokLSS, a, b).(sc)
			eq := m.equals(nil, a, b).(sc)
			r := m.tb.ite(m.toTerm(lt, 0), m.tb.constBV(^uint64(0), 64), m.tb.ite(m.toTerm(eq, 0), m.tb.constBV(0, 64), m.tb.constBV(1, 64)))
			return m.fromTerm(r)
		},
		"internal/abi.NoEscape": func(th *thread, caller *frame, fn *ssa.Function, args []value, site ssa.Instruction) value {
			return args[0]
		},
		"internal/abi.Escape": func(th *thread, caller *frame, fn *ssa.Function, args []value, site ssa.Instruction) value {
			return args[0]
		},
		"strings.(*Builder).copyCheck":   nop,
		"(*strings.Builder).copyCheck":   nop,
		"internal/stringslite.Index": func(th *thread, caller *frame, fn *ssa.Function, args []value, site ssa.Instruction) value {
			return th.m.indexString(strBytes(args[0]), strBytes(args[1]))
		},
		"strings.Index": func(th *thread, caller *frame, fn *ssa.Function, args []value, site ssa.Instruction) value {
			return th.m.indexString(strBytes(args[0]), strBytes(args[1]))
		},
		"internal/reflectlite.TypeOf": func(th *thread, caller *frame, fn *ssa.Function, args []value, site ssa.Instruction) value {
			return iface{t: th.m.rtypeType, v: "rtype"}
		},
		// crypto/sha1: the assembly block function is replaced by the portable Go one
		"crypto/sha1.block": func(th *thread, caller *frame, fn *ssa.Function, args []value, site ssa.Instruction) value {
			g := fn.Pkg.Func("blockGeneric")
			if g == nil {
				panic(pathEnd{kind: endUnsupported, msg: "crypto/sha1.blockGeneric not found"})
			}
			return th.call(caller, g, args, site)
		},
		"os.Exit": func(th *thread, caller *frame, fn *ssa.Function, args []value, site ssa.Instruction) value {
			th.m.violation("os-exit", "os.Exit called at "+th.m.curPos())
			return nil
		},
		"os.Getenv": func(th *thread, caller *frame, fn *ssa.Function, args []value, site ssa.Instruction) value {
			return ""
		},
	}
	for _, w := range []string{"32", "64"} {
		bits := 32
		if w == "64" {
			bits = 64
		}
		for _, kind := range []string{"Int", "Uint"} {
			b := bits
			intrinsics["sync/atomic.Add"+kind+w] = func(th *thread, caller *frame, fn *ssa.Function, args []value, site ssa.Instruction) value {
				m := th.m
				th.yield("atomic")
				t := deref(fn.Signature.Params().At(0).Type())
				old := m.load(args[0], t).(sc)
				var nv value
				if old.t == nil && args[1].(sc).t == nil {
					nv = mkInt((old.c + args[1].(sc).c) & mask(b))
				} else {
					nv = m.fromTerm(m.tb.bin(opAdd, m.toTerm(old, b), m.toTerm(args[1].(sc), b)))
				}
				m.store(t, args[0], nv)
				return nv
			}
			intrinsics["sync/atomic.Load"+kind+w] = func(th *thread, caller *frame, fn *ssa.Function, args []value, site ssa.Instruction) value {
				th.yield("atomic")
				return th.m.load(args[0], deref(fn.Signature.Params().At(0).Type()))
			}
			intrinsics["sync/atomic.Store"+kind+w] = func(th *thread, caller *frame, fn *ssa.Function, args []value, site ssa.Instruction) value {
				th.yield("atomic")
				th.m.store(deref(fn.Signature.Params().At(0).Type()), args[0], args[1])
				return nil
			}
			intrinsics["sync/atomic.Swap"+kind+w] = func(th *thread, caller *frame, fn *ssa.Function, args []value, site ssa.Instruction) value {
				th.yield("atomic")
				t := deref(fn.Signature.Params().At(0).Type())
				old := th.m.load(args[0], t)
				th.m.store(t, args[0], args[1])
				return old
			}
			intrinsics["sync/atomic.CompareAndSwap"+kind+w] = func(th *thread, caller *frame, fn *ssa.Function, args []value, site ssa.Instruction) value {
				m := th.m
				th.yield("atomic")
				t := deref(fn.Signature.Params().At(0).Type())
				old := m.load(args[0], t)
				eq := m.equals(t, old, args[1]).(sc)
				var ok bool
				if eq.t == nil {
					ok = eq.c != 0
				} else {
					ok = m.branch(eq.t, "cas")
				}
				if ok {
					m.store(t, args[0], args[2])
				}
				return mkBool(ok)
			}
		}
	}
	intrinsics["sync/atomic.LoadPointer"] = func(th *thread, caller *frame, fn *ssa.Function, args []value, site ssa.Instruction) value {
		th.yield("atomic")
		return th.m.load(args[0], deref(fn.Signature.Params().At(0).Type()))
	}
	intrinsics["sync/atomic.StorePointer"] = func(th *thread, caller *frame, fn *ssa.Function, args []value, site ssa.Instruction) value {
		th.yield("atomic")
		th.m.store(deref(fn.Signature.Params().At(0).Type()), args[0], args[1])
		return nil
	}
	intrinsics["sync/atomic.CompareAndSwapPointer"] = func(th *thread, caller *frame, fn *ssa.Function, args []value, site ssa.Instruction) value {
		m := th.m
		th.yield("atomic")
		t := deref(fn.Signature.Params().At(0).Type())
		old := m.load(args[0], t)
		eq := m.equals(t, old, args[1]).(sc)
		if eq.c != 0 {
			m.store(t, args[0], args[2])
		}
		return mkBool(eq.c != 0)
	}
	intrinsics["sync/atomic.LoadUintptr"] = intrinsics["sync/atomic.LoadUint64"]
	intrinsics["sync/atomic.StoreUintptr"] = intrinsics["sync/atomic.StoreUint64"]
	intrinsics["sync/atomic.AddUintptr"] = intrinsics["sync/atomic.AddUint64"]
	intrinsics["sync/atomic.CompareAndSwapUintptr"] = intrinsics["sync/atomic.CompareAndSwapUint64"]
}

func nop(th *thread, caller *frame, fn *ssa.Function, args []value, site ssa.Instruction) value {
	return nil
}

func lockerMethod(t types.Type, name string) *types.Func {
	ms := types.NewMethodSet(t)
	for i := 0; i < ms.Len(); i++ {
		if ms.At(i).Obj().Name() == name {
			return ms.At(i).Obj().(*types.Func)
		}
	}
	panic(engineError{"no method " + name + " on " + t.String()})
}

func (m *machine) wgOf(p ptr) *wgState {
	if s, ok := m.objState[p.slot]; ok {
		return s.(*wgState)
	}
	s := &wgState{}
	m.objState[p.slot] = s
	return s
}

func (m *machine) condOf(p ptr) *condState {
	if s, ok := m.objState[p.slot]; ok {
		return s.(*condState)
	}
	s := &condState{}
	m.objState[p.slot] = s
	return s
}

func (m *machine) poolOf(p ptr) *poolModel {
	if s, ok := m.poolState[p.slot]; ok {
		return s
	}
	s := &poolModel{}
	m.poolState[p.slot] = s
	return s
}

const (
	poolLIFO = iota
	poolNondet
	poolAlwaysNew
)

func (m *machine) sliceBytes(s slicev) []value {
	b := make([]value, s.len)
	for i := range b {
		b[i] = m.loadElem(s.arr, s.off+i)
	}
	return b
}

func (m *machine) bytesEqual(a, b slicev) value {
	if a.len != b.len {
		return mkBool(false)
	}
	return m.symStrEq(mkStr(m.sliceBytes(a)), mkStr(m.sliceBytes(b)))
}

// indexByte returns the first index of c in b or -1, as an ite chain.
func (m *machine) indexByte(b []value, c sc) value {
	tb := m.tb
	res := tb.constBV(^uint64(0), 64)
	allConc := c.t == nil
	for i := len(b) - 1; i >= 0; i-- {
		x := b[i].(sc)
		if x.t != nil {
			allConc = false
		}
		e := m.equals(types.Typ[types.Uint8], x, c).(sc)
		res = tb.ite(m.toTerm(e, 0), tb.constBV(uint64(i), 64), res)
	}
	_ = allConc
	return m.fromTerm(res)
}

// indexString returns the first index of sep in s or -1.
func (m *machine) indexString(s, sep []value) value {
	tb := m.tb
	n, k := len(s), len(sep)
	if k == 0 {
		return mkInt(0)
	}
	res := tb.constBV(^uint64(0), 64)
	for i := n - k; i >= 0; i-- {
		e := m.symStrEq(mkStr(s[i:i+k]), mkStr(sep)).(sc)
		res = tb.ite(m.toTerm(e, 0), tb.constBV(uint64(i), 64), res)
	}
	return m.fromTerm(res)
}

// ---------------------------------------------------------------------------
// errors.Is / As

func (th *thread) unwrapErr(caller *frame, e iface, site ssa.Instruction) value {
	m := th.m
	if e.t == nil {
		return iface{}
	}
	if x, ok := e.v.(*extErr); ok {
		if w, ok := m.wraps[x]; ok {
			return w.inner
		}
		return iface{}
	}
	if e.t == m.runtimeErrType {
		return iface{}
	}
	// method Unwrap() error
	ms := m.prog.MethodSets.MethodSet(e.t)
	if sel := ms.Lookup(nil, "Unwrap"); sel != nil {
		if sig, ok := sel.Type().(*types.Signature); ok && sig.Params().Len() == 0 && sig.Results().Len() == 1 {
			if _, isSlice := sig.Results().At(0).Type().Underlying().(*types.Slice); !isSlice {
				f := m.prog.MethodValue(sel)
				if f != nil {
					r := th.call(caller, f, []value{e.v}, site)
					return r
				}
			}
		}
	}
	return iface{}
}

func (th *thread) errorsIs(caller *frame, err, target iface, site ssa.Instruction, depth int) bool {
	m := th.m
	if err.t == nil || target.t == nil {
		return err.t == nil && target.t == nil
	}
	for depth < 16 {
		if types.Identical(err.t, target.t) && types.Comparable(err.t) {
			eq := m.equals(err.t, err.v, target.v).(sc)
			if eq.t != nil {
				if m.branch(eq.t, "errors.Is") {
					return true
				}
			} else if eq.c != 0 {
				return true
			}
		}
		// Is(target) bool method
		if err.t != m.extErrType && err.t != m.runtimeErrType {
			ms := m.prog.MethodSets.MethodSet(err.t)
			if sel := ms.Lookup(nil, "Is"); sel != nil {
				if sig, ok := sel.Type().(*types.Signature); ok && sig.Params().Len() == 1 && sig.Results().Len() == 1 && isBoolType(sig.Results().At(0).Type()) {
					if f := m.prog.MethodValue(sel); f != nil {
						r := th.call(caller, f, []value{err.v, target}, site).(sc)
						if r.t != nil {
							if m.branch(r.t, "errors.Is-method") {
								return true
							}
						} else if r.c != 0 {
							return true
						}
					}
				}
			}
		}
		nx, _ := th.unwrapErr(caller, err, site).(iface)
		if nx.t == nil {
			return false
		}
		err = nx
		depth++
	}
	return false
}

func (th *thread) errorsAs(caller *frame, err, target iface, site ssa.Instruction) bool {
	m := th.m
	if err.t == nil {
		return false
	}
	tp, ok := target.t.Underlying().(*types.Pointer)
	if !ok {
		m.goPanic("errors: target must be a non-nil pointer")
	}
	want := tp.Elem()
	for d := 0; d < 16; d++ {
		match := false
		if wi, isI := want.Underlying().(*types.Interface); isI {
			match = m.implements(err.t, wi)
			if match {
				m.store(want, target.v, err)
				return true
			}
		} else if types.Identical(err.t, want) {
			m.store(want, target.v, err.v)
			return true
		}
		nx, _ := th.unwrapErr(caller, err, site).(iface)
		if nx.t == nil {
			return false
		}
		err = nx
	}
	return false
}

// ---------------------------------------------------------------------------

func (th *thread) doRecover(caller *frame) value {
	if caller != nil && !caller.panicking && caller.caller != nil && caller.caller.panicking {
		p := caller.caller.panic
		if tp, ok := p.(targetPanic); ok {
			if tp.goexit {
				return iface{}
			}
			caller.caller.panicking = false
			caller.caller.panic = nil
			return tp.v
		}
	}
	return iface{}
}

var _ = os.Getenv

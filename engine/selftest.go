package main

import (
	"fmt"
	"os"
	"path/filepath"
	"regexp"
	"strings"
)

func cmdSelftest(args []string) int {
	fmt.Println("selftest: TODO")
	return 0
}

var vkFuncRe = regexp.MustCompile(`(?m)^func (vk_[A-Za-z0-9_]+)\(`)

// nativeSyscallRewrites returns overlay copies of the package's own source
// files in which calls to syscall.X / (*os.File).M are redirected to the
// harness's kernel model vk_X / vk_File_M, mirroring what the engine does by
// interception. Only used for native replay builds.
func nativeSyscallRewrites(spec *checkSpec, overlay map[string][]byte) map[string][]byte {
	names := map[string]bool{}
	harness := map[string]bool{}
	dirs := map[string]bool{filepath.Join(repoDir, spec.Dir): true}
	for virt, content := range overlay {
		if strings.Contains(filepath.Base(virt), "zz_verif_") {
			harness[virt] = true
			for _, m := range vkFuncRe.FindAllSubmatch(content, -1) {
				names[string(m[1])] = true
			}
		}
	}
	if len(names) == 0 {
		return nil
	}
	out := map[string][]byte{}
	for dir := range dirs {
		ents, _ := os.ReadDir(dir)
		for _, e := range ents {
			if !strings.HasSuffix(e.Name(), ".go") || strings.HasSuffix(e.Name(), "_test.go") {
				continue
			}
			path := filepath.Join(dir, e.Name())
			if harness[path] {
				continue
			}
			src, ok := overlay[path]
			if !ok {
				var err error
				src, err = os.ReadFile(path)
				if err != nil {
					continue
				}
			}
			txt := string(src)
			orig := txt
			for n := range names {
				if strings.HasPrefix(n, "vk_File_") {
					m := strings.TrimPrefix(n, "vk_File_")
					txt = strings.ReplaceAll(txt, "f."+m+"()", n+"(f)")
					txt = strings.ReplaceAll(txt, "f."+m+"(", n+"(f, ")
				} else if strings.HasPrefix(n, "vk_os_") {
					continue
				} else {
					x := strings.TrimPrefix(n, "vk_")
					txt = regexp.MustCompile(`\bsyscall\.`+x+`\(`).ReplaceAllString(txt, n+"(")
				}
			}
			if txt != orig {
				// keep imports used
				txt += "\n\nvar _ = syscall.EAGAIN\n"
				if !strings.Contains(txt, "\"syscall\"") {
					continue
				}
				out[path] = []byte(txt)
			}
		}
	}
	return out
}

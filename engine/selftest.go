package main

import (
	"encoding/json"
	"fmt"
	"os"
	"os/exec"
	"path/filepath"
	"regexp"
	"sort"
	"strconv"
	"strings"
	"time"

	"golang.org/x/tools/go/ssa"
)

type selfSpec struct {
	pkg, dir string
	files    []string
}

var selfSpecs = []selfSpec{
	{"github.com/lesismal/nbio/mempool", "mempool", []string{"selftest/zz_verif_self_lang.go"}},
	{"github.com/lesismal/nbio/nbhttp", "nbhttp", []string{"nbhttp/zz_verif_http.go", "nbhttp/zz_verif_c06.go", "nbhttp/zz_verif_c07.go", "selftest/zz_verif_self_http.go"}},
	{"github.com/lesismal/nbio/nbhttp/websocket", "nbhttp/websocket", []string{"websocket/zz_verif_ws.go", "selftest/zz_verif_self_ws.go"}},
}

var dataLitRe = regexp.MustCompile(`(?m)^\s*data :?= \[\]byte\(("(?:[^"\\]|\\.)*")\)`)
var testFuncRe = regexp.MustCompile(`(?m)^func (Test\w+)\(`)

// parserTestInputs extracts the messages of nbhttp/parser_test.go.
func parserTestInputs() (lits []string, client []bool) {
	src, err := os.ReadFile(filepath.Join(repoDir, "nbhttp", "parser_test.go"))
	if err != nil {
		return nil, nil
	}
	txt := string(src)
	// positions of test functions
	type fpos struct {
		pos  int
		name string
	}
	var fns []fpos
	for _, m := range testFuncRe.FindAllStringSubmatchIndex(txt, -1) {
		fns = append(fns, fpos{m[0], txt[m[2]:m[3]]})
	}
	for _, m := range dataLitRe.FindAllStringSubmatchIndex(txt, -1) {
		lit := txt[m[2]:m[3]]
		name := ""
		for _, f := range fns {
			if f.pos < m[0] {
				name = f.name
			}
		}
		lits = append(lits, lit)
		client = append(client, strings.Contains(name, "Client"))
	}
	return
}

// cmdSelftest: translator validation. Concrete programs (interpreter
// conformance corpus, the repository's own test inputs, std helpers on seeded
// inputs) are run under gosym and natively and must give identical results;
// the C07 message model is validated natively against net/http.
func cmdSelftest(args []string) int {
	t0 := time.Now()
	work := filepath.Join(verifDir, "work", "selftest")
	os.RemoveAll(work)
	os.MkdirAll(work, 0o755)
	defer os.RemoveAll(work)
	cfg := &runConfig{workers: 1, maxSteps: 200_000_000, solverBin: "z3", timeoutMs: 30000, maxSplit: 600}
	bad := 0
	total := 0
	for _, sp := range selfSpecs {
		spec := &checkSpec{ID: "SELF", Pkg: sp.pkg, Dir: sp.dir, Files: sp.files}
		overlay, err := buildOverlay(repoDir, verifDir, spec)
		if err != nil {
			fmt.Fprintln(os.Stderr, "SELFTEST-ERROR:", err)
			return 2
		}
		if sp.dir == "nbhttp" {
			lits, client := parserTestInputs()
			if len(lits) < 9 {
				fmt.Fprintf(os.Stderr, "SELFTEST-ERROR: only %d inputs found in parser_test.go\n", len(lits))
				return 2
			}
			var sb strings.Builder
			sb.WriteString("package nbhttp\n\nvar verifSelfParserInputs = []string{\n")
			for _, l := range lits {
				sb.WriteString("\t" + l + ",\n")
			}
			sb.WriteString("}\n\nvar verifSelfParserClient = []bool{")
			for _, c := range client {
				sb.WriteString(fmt.Sprintf("%v, ", c))
			}
			sb.WriteString("}\n")
			overlay[filepath.Join(repoDir, sp.dir, "zz_verif_self_inputs.go")] = []byte(sb.String())
		}
		w, err := loadWorld(repoDir, overlay, spec, cfg)
		if err != nil {
			fmt.Fprintln(os.Stderr, "SELFTEST-ERROR:", err)
			return 2
		}
		var fns []*ssa.Function
		for name, mem := range w.mainPkg.Members {
			if fn, ok := mem.(*ssa.Function); ok && strings.HasPrefix(name, "verifSelf_") {
				fns = append(fns, fn)
			}
		}
		sort.Slice(fns, func(i, j int) bool { return fns[i].Name() < fns[j].Name() })
		m, err := w.getMachine(0)
		if err != nil {
			fmt.Fprintln(os.Stderr, "SELFTEST-ERROR:", err)
			return 2
		}
		m.res = newResults()
		w.q = newQueue()
		interp := map[string]string{}
		for _, fn := range fns {
			m.trace = os.Getenv("VERIF_SELFTRACE") == fn.Name()
			kind, msg := m.runPath(fn, workItem{})
			m.trace = false
			if kind != endDone {
				fmt.Fprintf(os.Stderr, "SELFTEST-FAIL %s: interpreter ended with %s: %s\n", fn.Name(), kind, msg)
				bad++
				continue
			}
			s, ok := m.lastRet.(string)
			if !ok {
				fmt.Fprintf(os.Stderr, "SELFTEST-FAIL %s: non-concrete result %T\n", fn.Name(), m.lastRet)
				bad++
				continue
			}
			interp[fn.Name()] = s
		}
		w.closeMachines()
		// native run
		pname, _ := packageNameOf(filepath.Join(repoDir, sp.dir))
		var tb strings.Builder
		tb.WriteString("package " + pname + "\n\nimport (\n\t\"fmt\"\n\t\"testing\"\n)\n\nfunc TestVerifSelf(t *testing.T) {\n")
		for _, fn := range fns {
			tb.WriteString(fmt.Sprintf("\tfmt.Printf(\"SELF %s %%q\\n\", %s())\n", fn.Name(), fn.Name()))
		}
		if sp.dir == "nbhttp" {
			tb.WriteString("\tverifSelfC07Native()\n")
		}
		tb.WriteString("}\n")
		repl := map[string]string{}
		i := 0
		for virt, content := range overlay {
			real := filepath.Join(work, fmt.Sprintf("%s_%d_%s", pname, i, filepath.Base(virt)))
			i++
			os.WriteFile(real, content, 0o644)
			repl[virt] = real
		}
		if ents, err := os.ReadDir(filepath.Join(repoDir, sp.dir)); err == nil {
			for _, e := range ents {
				if strings.HasSuffix(e.Name(), "_test.go") {
					repl[filepath.Join(repoDir, sp.dir, e.Name())] = ""
				}
			}
		}
		tpath := filepath.Join(work, pname+"_zz_verif_self_test.go")
		os.WriteFile(tpath, []byte(tb.String()), 0o644)
		repl[filepath.Join(repoDir, sp.dir, "zz_verif_self_test.go")] = tpath
		ob, _ := json.Marshal(map[string]interface{}{"Replace": repl})
		ovp := filepath.Join(work, pname+"_overlay.json")
		os.WriteFile(ovp, ob, 0o644)
		cmd := exec.Command("go", "test", "-vet=off", "-v", "-count=1", "-timeout", "300s", "-run", "TestVerifSelf", "-overlay", ovp, ".")
		cmd.Dir = filepath.Join(repoDir, sp.dir)
		cmd.Env = append(os.Environ(), "GOFLAGS=-mod=mod", "GOPROXY=off", "GOSUMDB=off", "GOTOOLCHAIN=local", "VERIF_RANDOM=1")
		out, _ := cmd.CombinedOutput()
		native := map[string]string{}
		for _, line := range strings.Split(string(out), "\n") {
			if strings.HasPrefix(line, "SELF ") {
				parts := strings.SplitN(line, " ", 3)
				if len(parts) == 3 {
					if s, err := strconv.Unquote(parts[2]); err == nil {
						native[parts[1]] = s
					}
				}
			}
			if strings.HasPrefix(line, "SELF-C07 ") {
				fmt.Println("selftest:", line)
				if !strings.Contains(line, "failures=0 ") {
					bad++
				}
				total++
			}
		}
		for _, fn := range fns {
			total++
			is, ok1 := interp[fn.Name()]
			ns, ok2 := native[fn.Name()]
			switch {
			case !ok2:
				fmt.Fprintf(os.Stderr, "SELFTEST-FAIL %s: no native result\n%s\n", fn.Name(), tailStr(string(out), 1500))
				bad++
			case ok1 && is == ns:
				fmt.Printf("selftest: %-40s ok (%d bytes identical under gosym and natively)\n", fn.Name(), len(is))
			case ok1:
				fmt.Fprintf(os.Stderr, "SELFTEST-FAIL %s: results differ\n  gosym : %q\n  native: %q\n", fn.Name(), trunc(is, 400), trunc(ns, 400))
				bad++
			}
		}
	}
	fmt.Printf("selftest: %d programs, %d failed, %.1fs\n", total, bad, time.Since(t0).Seconds())
	if bad > 0 {
		return 2
	}
	return 0
}

func trunc(s string, n int) string {
	if len(s) > n {
		return s[:n] + "…"
	}
	return s
}

func tailStr(s string, n int) string {
	if len(s) > n {
		return s[len(s)-n:]
	}
	return s
}

var vkFuncRe = regexp.MustCompile(`(?m)^func (vk_[A-Za-z0-9_]+)\(`)

// nativeSyscallRewrites returns overlay copies of the package's own source
// files in which calls to syscall.X / (*os.File).M are redirected to the
// harness's kernel model vk_X / vk_File_M, mirroring what the engine does by
// interception. Only used for native replay builds.
func nativeSyscallRewrites(spec *checkSpec, overlay map[string][]byte) map[string][]byte {
	names := map[string]bool{}
	harness := map[string]bool{}
	dirs := map[string]bool{filepath.Join(repoDir, spec.Dir): true}
	for virt, content := range overlay {
		if strings.Contains(filepath.Base(virt), "zz_verif_") {
			harness[virt] = true
			for _, m := range vkFuncRe.FindAllSubmatch(content, -1) {
				names[string(m[1])] = true
			}
		}
	}
	if len(names) == 0 {
		return nil
	}
	out := map[string][]byte{}
	for dir := range dirs {
		ents, _ := os.ReadDir(dir)
		for _, e := range ents {
			if !strings.HasSuffix(e.Name(), ".go") || strings.HasSuffix(e.Name(), "_test.go") {
				continue
			}
			path := filepath.Join(dir, e.Name())
			if harness[path] {
				continue
			}
			src, ok := overlay[path]
			if !ok {
				var err error
				src, err = os.ReadFile(path)
				if err != nil {
					continue
				}
			}
			txt := string(src)
			orig := txt
			for n := range names {
				if strings.HasPrefix(n, "vk_File_") {
					m := strings.TrimPrefix(n, "vk_File_")
					txt = strings.ReplaceAll(txt, "f."+m+"()", n+"(f)")
					txt = strings.ReplaceAll(txt, "f."+m+"(", n+"(f, ")
				} else if strings.HasPrefix(n, "vk_os_") {
					continue
				} else {
					x := strings.TrimPrefix(n, "vk_")
					txt = regexp.MustCompile(`\bsyscall\.`+x+`\(`).ReplaceAllString(txt, n+"(")
				}
			}
			if txt != orig {
				// keep imports used
				txt += "\n\nvar _ = syscall.EAGAIN\n"
				if !strings.Contains(txt, "\"syscall\"") {
					continue
				}
				out[path] = []byte(txt)
			}
		}
	}
	return out
}

package main

import "fmt"

func cmdSelftest(args []string) int {
	fmt.Println("selftest: TODO")
	return 0
}

func nativeSyscallRewrites(spec *checkSpec, overlay map[string][]byte) map[string][]byte {
	return nil
}

package main

// Loading /repo's current working tree (plus overlay harness files and
// scaled-constant copies) and building SSA. Nothing is cached between runs.

import (
	"fmt"
	"go/ast"
	"go/parser"
	"go/printer"
	"go/token"
	"os"
	"path/filepath"
	"regexp"
	"sort"
	"strings"

	"golang.org/x/tools/go/packages"
	"golang.org/x/tools/go/ssa"
	"golang.org/x/tools/go/ssa/ssautil"
)

type constRewrite struct {
	File  string `json:"file"`  // relative to repo
	Const string `json:"const"` // identifier
	Value string `json:"value"` // new expression text
}

type textRewrite struct {
	File string `json:"file"`
	Old  string `json:"old"`
	New  string `json:"new"`
}

type checkSpec struct {
	ID        string         `json:"id"`
	Pkg       string         `json:"pkg"`       // import path of the package under test
	Dir       string         `json:"dir"`       // directory relative to repo
	Files     []string       `json:"files"`     // harness files relative to /verif/harness
	Extra     []extraOverlay `json:"extra"`     // harness files for other packages
	Rewrites  []constRewrite `json:"rewrites"`  // scaled constants
	TextRewrites []textRewrite `json:"text_rewrites"` // scaled literal thresholds (exact source text)
	MaxSteps  int            `json:"max_steps"`
	Timeout   map[string]int `json:"timeout_s"` // per tier
	MaxSplit  int            `json:"max_split"`
	Assumptions []string     `json:"assumptions"`
	Explanation string       `json:"explanation"`
	Stubs     []string       `json:"stubs"`
	Out       []string       `json:"out_of_scope"`
	Parts     []*checkSpec   `json:"parts"`
}

type extraOverlay struct {
	Dir   string   `json:"dir"`
	Files []string `json:"files"`
}

var initAllow = []string{
	"errors", "io", "strconv", "strings", "bytes", "unicode/utf8", "encoding/binary", "math/bits", "math",
	"sort", "sync", "sync/atomic", "internal/bytealg", "unicode", "net/textproto", "bufio", "slices", "cmp",
	"internal/itoa", "internal/oserror", "io/fs", "encoding/base64", "container/heap", "container/list", "unicode/utf16",
	"syscall", "internal/poll", "encoding/base64", "hash", "internal/stringslite", "compress/flate", "net/http/internal/ascii", "net/http/internal", "golang.org/x/net/http/httpguts", "vendor/golang.org/x/net/http/httpguts",
}

func packageNameOf(dir string) (string, error) {
	ents, err := os.ReadDir(dir)
	if err != nil {
		return "", err
	}
	fset := token.NewFileSet()
	for _, e := range ents {
		if strings.HasSuffix(e.Name(), ".go") && !strings.HasSuffix(e.Name(), "_test.go") {
			f, err := parser.ParseFile(fset, filepath.Join(dir, e.Name()), nil, parser.PackageClauseOnly)
			if err == nil {
				return f.Name.Name, nil
			}
		}
	}
	return "", fmt.Errorf("no go files in %s", dir)
}

var pkgClauseRe = regexp.MustCompile(`(?m)^package\s+\w+`)

// buildOverlay returns the overlay map (virtual path -> content).
func buildOverlay(repo, verif string, spec *checkSpec) (map[string][]byte, error) {
	ov := map[string][]byte{}
	add := func(dir string, files []string) error {
		pname, err := packageNameOf(filepath.Join(repo, dir))
		if err != nil {
			return err
		}
		// the API file goes into every package that has harness files
		all := append([]string{"common/zz_verif_api.go"}, files...)
		if dir != "mempool" {
			all = append(all, "common/zz_verif_alloc.go")
		}
		for _, f := range all {
			src, err := os.ReadFile(filepath.Join(verif, "harness", f))
			if err != nil {
				return err
			}
			src = pkgClauseRe.ReplaceAll(src, []byte("package "+pname))
			ov[filepath.Join(repo, dir, filepath.Base(f))] = src
		}
		return nil
	}
	if err := add(spec.Dir, spec.Files); err != nil {
		return nil, err
	}
	for _, e := range spec.Extra {
		if err := add(e.Dir, e.Files); err != nil {
			return nil, err
		}
	}
	for _, rw := range spec.Rewrites {
		path := filepath.Join(repo, rw.File)
		src, ok := ov[path]
		if !ok {
			var err error
			src, err = os.ReadFile(path)
			if err != nil {
				return nil, err
			}
		}
		out, err := rewriteConst(path, src, rw.Const, rw.Value)
		if err != nil {
			return nil, err
		}
		ov[path] = out
	}
	for _, rw := range spec.TextRewrites {
		path := filepath.Join(repo, rw.File)
		src, ok := ov[path]
		if !ok {
			var err error
			src, err = os.ReadFile(path)
			if err != nil {
				return nil, err
			}
		}
		if strings.Count(string(src), rw.Old) != 1 {
			return nil, fmt.Errorf("CHECK-ERROR: text %q not found exactly once in %s", rw.Old, path)
		}
		ov[path] = []byte(strings.Replace(string(src), rw.Old, rw.New, 1))
	}
	return ov, nil
}

// rewriteConst replaces the value of a package-level const/var declaration.
func rewriteConst(path string, src []byte, name, val string) ([]byte, error) {
	fset := token.NewFileSet()
	f, err := parser.ParseFile(fset, path, src, parser.ParseComments)
	if err != nil {
		return nil, err
	}
	nv, err := parser.ParseExpr(val)
	if err != nil {
		return nil, err
	}
	found := false
	for _, d := range f.Decls {
		gd, ok := d.(*ast.GenDecl)
		if !ok || (gd.Tok != token.CONST && gd.Tok != token.VAR) {
			continue
		}
		for _, s := range gd.Specs {
			vs := s.(*ast.ValueSpec)
			for i, n := range vs.Names {
				if n.Name == name && i < len(vs.Values) {
					vs.Values[i] = nv
					found = true
				}
			}
		}
	}
	if !found {
		return nil, fmt.Errorf("CHECK-ERROR: declaration of %s not found in %s", name, path)
	}
	var sb strings.Builder
	if err := printer.Fprint(&sb, fset, f); err != nil {
		return nil, err
	}
	return []byte(sb.String()), nil
}

func loadWorld(repo string, overlay map[string][]byte, spec *checkSpec, cfg *runConfig) (*world, error) {
	pcfg := &packages.Config{
		Mode:    packages.LoadAllSyntax,
		Dir:     repo,
		Overlay: overlay,
		Env:     append(os.Environ(), "GOFLAGS=-mod=mod", "GOPROXY=off", "GOSUMDB=off", "GOTOOLCHAIN=local", "CGO_ENABLED=0"),
		Tests:   false,
	}
	pats := []string{spec.Pkg}
	initial, err := packages.Load(pcfg, pats...)
	if err != nil {
		return nil, err
	}
	nerr := 0
	packages.Visit(initial, nil, func(p *packages.Package) {
		for _, e := range p.Errors {
			fmt.Fprintf(os.Stderr, "load error: %v\n", e)
			nerr++
		}
	})
	if nerr > 0 {
		return nil, fmt.Errorf("CHECK-ERROR: %d package load errors", nerr)
	}
	prog, pkgs := ssautil.AllPackages(initial, ssa.InstantiateGenerics|ssa.SanityCheckFunctions&0)
	prog.Build()
	w := &world{prog: prog, cfg: cfg}
	w.mainPkg = pkgs[0]
	if w.mainPkg == nil {
		return nil, fmt.Errorf("CHECK-ERROR: no SSA package for %s", spec.Pkg)
	}
	w.pkgs = prog.AllPackages()
	sort.Slice(w.pkgs, func(i, j int) bool { return w.pkgs[i].Pkg.Path() < w.pkgs[j].Pkg.Path() })
	// target packages: main first, then other nbio packages (for vk_ redirects)
	w.targetPkgs = append(w.targetPkgs, w.mainPkg)
	for _, p := range w.pkgs {
		if p != w.mainPkg && strings.HasPrefix(p.Pkg.Path(), "github.com/lesismal/nbio") {
			w.targetPkgs = append(w.targetPkgs, p)
		}
	}
	// init order: dependency order over the import graph
	allow := map[string]bool{}
	for _, a := range initAllow {
		allow[a] = true
	}
	seen := map[string]bool{}
	var order []*ssa.Package
	var visit func(p *packages.Package)
	visit = func(p *packages.Package) {
		if seen[p.PkgPath] {
			return
		}
		seen[p.PkgPath] = true
		var imps []string
		for k := range p.Imports {
			imps = append(imps, k)
		}
		sort.Strings(imps)
		for _, k := range imps {
			visit(p.Imports[k])
		}
		if allow[p.PkgPath] || strings.HasPrefix(p.PkgPath, "github.com/lesismal/nbio") {
			if sp := prog.Package(p.Types); sp != nil {
				order = append(order, sp)
			}
		}
	}
	for _, p := range initial {
		visit(p)
	}
	w.initPkgs = order
	w.initAllowed = map[string]bool{}
	for _, p := range order {
		w.initAllowed[p.Pkg.Path()] = true
	}
	return w, nil
}

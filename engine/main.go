package main

import (
	"encoding/json"
	"flag"
	"fmt"
	"os"
	"os/exec"
	"path/filepath"
	"runtime"
	"sort"
	"strings"
	"time"

	"golang.org/x/tools/go/ssa"
)

var solverDiffGlobal []string

var (
	repoDir  = "/repo"
	verifDir = "/verif"
)

func main() {
	if len(os.Args) < 2 {
		fmt.Fprintln(os.Stderr, "usage: gosym check <ID> [flags] | selftest | replay <dir>")
		os.Exit(2)
	}
	if d := os.Getenv("VERIF_REPO"); d != "" {
		repoDir = d
	}
	if d := os.Getenv("VERIF_DIR"); d != "" {
		verifDir = d
	}
	switch os.Args[1] {
	case "check":
		os.Exit(cmdCheck(os.Args[2:]))
	case "selftest":
		os.Exit(cmdSelftest(os.Args[2:]))
	case "replay":
		os.Exit(cmdReplay(os.Args[2:]))
	case "solver-diff":
		os.Exit(cmdSolverDiff(os.Args[2:]))
	default:
		fmt.Fprintln(os.Stderr, "unknown command", os.Args[1])
		os.Exit(2)
	}
}

func loadSpecs() (map[string]*checkSpec, error) {
	b, err := os.ReadFile(filepath.Join(verifDir, "checks.json"))
	if err != nil {
		return nil, err
	}
	var specs []*checkSpec
	if err := json.Unmarshal(b, &specs); err != nil {
		return nil, err
	}
	m := map[string]*checkSpec{}
	for _, s := range specs {
		m[s.ID] = s
	}
	return m, nil
}

type harnessResult struct {
	Name      string         `json:"name"`
	Paths     int            `json:"paths"`
	ByKind    map[string]int `json:"paths_by_end"`
	Reached   map[string]int `json:"reach_labels"`
	Bounds    map[string]int64 `json:"bounds"`
	Queries   int            `json:"queries"`
	Sat       int            `json:"sat"`
	Unsat     int            `json:"unsat"`
	Unknown   int            `json:"unknown"`
	SolverS   float64        `json:"solver_s"`
	WallS     float64        `json:"wall_s"`
	Steps     int64          `json:"ssa_instructions_executed"`
	Asserts   int            `json:"assertions_checked"`
	AssertsSym int           `json:"assertions_symbolic"`
	Messages  map[string]int `json:"end_messages,omitempty"`
	Exhaustive bool          `json:"exhaustive"`
	Witness   bool           `json:"witness_reachable"`
	TimedOut  bool           `json:"timed_out"`
}

func cmdCheck(args []string) int {
	fs := flag.NewFlagSet("check", flag.ExitOnError)
	tier := fs.String("tier", "", "quick|thorough")
	workers := fs.Int("workers", 0, "worker count")
	only := fs.String("only", "", "run only harnesses containing this substring")
	trace := fs.Bool("trace", false, "trace instructions")
	solverBin := fs.String("solver", "z3", "solver binary")
	maxPaths := fs.Int("max-paths", 0, "stop after N paths (debug)")
	logq := fs.String("log-queries", "", "write SMT transcripts to this prefix")
	noEvidence := fs.Bool("no-evidence", false, "do not write the evidence file")
	verbose := fs.Bool("v", false, "verbose")
	budgetFlag := fs.Int("budget", 0, "override the time budget (seconds)")
	decFile := fs.String("decisions", "", "run only the path recorded in this cex.json (with --only <harness>)")
	if len(args) < 1 {
		fmt.Fprintln(os.Stderr, "usage: gosym check <ID> [flags]")
		return 2
	}
	id := args[0]
	fs.Parse(args[1:])
	if *tier == "" {
		*tier = os.Getenv("VERIF_TIER")
	}
	if *tier == "" {
		*tier = "quick"
	}
	seed := 0
	fmt.Sscan(os.Getenv("VERIF_SEED"), &seed)
	t0 := time.Now()
	specs, err := loadSpecs()
	if err != nil {
		fmt.Fprintln(os.Stderr, "CHECK-ERROR:", err)
		return 2
	}
	spec, ok := specs[id]
	if !ok {
		fmt.Fprintln(os.Stderr, "CHECK-ERROR: unknown check", id)
		return 2
	}
	cfg := &runConfig{workers: *workers, maxSteps: 3_000_000, solverBin: *solverBin, timeoutMs: 30000, maxPaths: *maxPaths, trace: *trace, maxSplit: 600, logQueries: *logq, verbose: *verbose}
	if cfg.workers <= 0 {
		cfg.workers = runtime.NumCPU()
	}
	if spec.MaxSteps > 0 {
		cfg.maxSteps = spec.MaxSteps
	}
	if spec.MaxSplit > 0 {
		cfg.maxSplit = spec.MaxSplit
	}
	if *tier == "thorough" {
		cfg.tier = 1
		if cfg.logQueries == "" && *only == "" {
			// sample of queries for the cross-solver diff
			os.MkdirAll(filepath.Join(verifDir, "work"), 0o755)
			cfg.logQueries = filepath.Join(verifDir, "work", "diff_"+id)
			cfg.logOnlyFirst = true
			cfg.logLimit = 300
		}
	}
	if *trace {
		cfg.workers = 1
	}
	if *decFile != "" {
		b, err := os.ReadFile(*decFile)
		if err != nil {
			fmt.Fprintln(os.Stderr, err)
			return 2
		}
		var cx struct {
			Decisions []int64 `json:"decisions"`
		}
		json.Unmarshal(b, &cx)
		cfg.initialPrefix = cx.Decisions
		cfg.workers = 1
		cfg.maxPaths = 1
	}
	parts := spec.Parts
	if len(parts) == 0 {
		parts = []*checkSpec{spec}
	}
	for _, pt := range parts {
		pt.ID = spec.ID
	}
	budget := 0
	if spec.Timeout != nil {
		budget = spec.Timeout[*tier]
	}
	if *budgetFlag > 0 {
		budget = *budgetFlag
	}
	if budget == 0 {
		if cfg.tier == 0 {
			budget = 900
		} else {
			budget = 3600
		}
	}
	deadlineAll := t0.Add(time.Duration(budget) * time.Second)
	all := newResults()
	var hres []harnessResult
	var totalStats solverStats
	exhaustive := true
	vacuous := []string{}
	loadS := 0.0
	overlays := map[string]map[string][]byte{}
	harnessPart := map[string]*checkSpec{}
	nh := 0
	for _, part := range parts {
		tl := time.Now()
		overlay, err := buildOverlay(repoDir, verifDir, part)
		if err != nil {
			fmt.Fprintln(os.Stderr, "CHECK-ERROR:", err)
			return 2
		}
		overlays[part.Dir] = overlay
		w, err := loadWorld(repoDir, overlay, part, cfg)
		if err != nil {
			fmt.Fprintln(os.Stderr, "CHECK-ERROR:", err)
			return 2
		}
		loadS += time.Since(tl).Seconds()
		var hs []*ssa.Function
		prefix := "verifHarness_" + id + "_"
		for name, mem := range w.mainPkg.Members {
			if fn, ok := mem.(*ssa.Function); ok && strings.HasPrefix(name, prefix) {
				if strings.HasSuffix(name, "_T") && cfg.tier == 0 {
					continue
				}
				if strings.HasSuffix(name, "_Q") && cfg.tier == 1 {
					continue
				}
				if *only != "" && !strings.Contains(name, *only) {
					continue
				}
				hs = append(hs, fn)
			}
		}
		sort.Slice(hs, func(i, j int) bool { return hs[i].Name() < hs[j].Name() })
		nh += len(hs)
		for _, h := range hs {
			harnessPart[h.Name()] = part
			res := newResults()
			// every harness may use what is left of the check's budget
			cfg.deadline = deadlineAll
			if time.Until(deadlineAll) < 3*time.Second {
				cfg.deadline = time.Now().Add(3 * time.Second)
			}
			th0 := time.Now()
			timedOut, stats, err := explore(w, h, res)
			if err != nil {
				fmt.Fprintln(os.Stderr, "CHECK-ERROR:", err)
				return 2
			}
			hr := harnessResult{Name: h.Name(), Paths: res.paths, ByKind: res.byKind, Reached: res.reached, Bounds: res.bounds,
				Queries: stats.queries, Sat: stats.sat, Unsat: stats.unsat, Unknown: stats.unknown, SolverS: stats.wall.Seconds(),
				WallS: time.Since(th0).Seconds(), Steps: res.steps, Asserts: res.asserts, AssertsSym: res.assertsSym, TimedOut: timedOut}
			bad := res.byKind["unsupported"] + res.byKind["bound-exceeded"] + res.byKind["inconclusive"] + res.byKind["engine-error"]
			hr.Exhaustive = !timedOut && bad == 0 && stats.errors == 0
			if bad > 0 || timedOut {
				hr.Messages = res.msgs
			}
			hr.Witness = res.reached["witness"] > 0
			if !hr.Witness {
				vacuous = append(vacuous, h.Name())
			}
			if !hr.Exhaustive {
				exhaustive = false
			}
			hres = append(hres, hr)
			totalStats.queries += stats.queries
			totalStats.sat += stats.sat
			totalStats.unsat += stats.unsat
			totalStats.unknown += stats.unknown
			totalStats.errors += stats.errors
			totalStats.wall += stats.wall
			all.paths += res.paths
			for k, v := range res.byKind {
				all.byKind[k] += v
			}
			for k, v := range res.violations {
				all.violations[k] = v
			}
			for k, v := range res.fnsEncoded {
				all.fnsEncoded[k] = v
			}
			for k, v := range res.reached {
				all.reached[h.Name()+":"+k] += v
			}
			all.samples = append(all.samples, res.samples...)
			all.asserts += res.asserts
			all.assertsSym += res.assertsSym
			all.steps += res.steps
			fmt.Fprintf(os.Stderr, "[%s] %s: paths=%d %v queries=%d (sat %d unsat %d unknown %d) solver=%.1fs wall=%.1fs exhaustive=%v witness=%v\n",
				id, h.Name(), res.paths, res.byKind, stats.queries, stats.sat, stats.unsat, stats.unknown, stats.wall.Seconds(), hr.WallS, hr.Exhaustive, hr.Witness)
			for k, v := range res.msgs {
				fmt.Fprintf(os.Stderr, "    %dx %s\n", v, k)
			}
		}
		w.closeMachines()
	}
	if nh == 0 {
		fmt.Fprintln(os.Stderr, "CHECK-ERROR: no harness functions for", id)
		return 2
	}

	// triage violations against known findings
	rc := 0
	if *only == "" {
		os.RemoveAll(filepath.Join(verifDir, "replay", id))
	}
	known, fixed := loadKnownFindings(id)
	var vkeys []string
	for k := range all.violations {
		vkeys = append(vkeys, k)
	}
	sort.Strings(vkeys)
	nviol := 0
	knownHit := map[string]bool{}
	var vioOut []map[string]interface{}
	for _, k := range vkeys {
		v := all.violations[k]
		sig := v.Harness + "|" + v.Label + "|" + v.Discr
		if kf := matchKnown(known, sig); kf != nil {
			if !knownHit[kf.What] {
				knownHit[kf.What] = true
				fmt.Printf("KNOWN-FINDING: property=%s %s\n", id, kf.What)
			}
			vioOut = append(vioOut, map[string]interface{}{"signature": sig, "known_finding": kf.What, "count": v.Count})
			continue
		}
		// new violation: write replay directory and try native reproduction
		dir := filepath.Join(verifDir, "replay", id, sanitize(sig))
		part := harnessPart[v.Harness]
		status := writeAndReplay(dir, part, v, overlays[part.Dir])
		vioOut = append(vioOut, map[string]interface{}{"signature": sig, "msg": v.Msg, "replay": dir, "native": status, "count": v.Count, "inputs": v.Inputs, "notes": v.Notes})
		switch status {
		case "reproduced", "interp-only":
			nviol++
			fmt.Printf("VIOLATION property=%s replay=%s\n", id, dir)
			fmt.Fprintf(os.Stderr, "  violation %s: %s (native replay: %s)\n", sig, v.Msg, status)
			rc = 1
		default:
			fmt.Fprintf(os.Stderr, "ENGINE-DISAGREEMENT: %s: %s (native replay: %s) dir=%s\n", sig, v.Msg, status, dir)
			if rc == 0 {
				rc = 2
			}
		}
	}
	_ = fixed
	if len(vacuous) > 0 {
		fmt.Fprintf(os.Stderr, "VACUOUS: witness unreachable in %v\n", vacuous)
		if rc == 0 {
			rc = 3
		}
	}
	if !exhaustive && rc == 0 {
		// a run that could not finish its stated bound must not pass silently
		fmt.Fprintf(os.Stderr, "INCOMPLETE: some paths unsupported/inconclusive/bound-exceeded or budget exhausted\n")
		rc = 4
	}
	var solverDiff []string
	if cfg.logOnlyFirst {
		tr := cfg.logQueries + ".0.smt2"
		for _, sv := range []string{"z3-new", "cvc5"} {
			out, _ := exec.Command(os.Args[0], "solver-diff", tr, sv, "300").CombinedOutput()
			line := strings.TrimSpace(string(out))
			if i := strings.LastIndex(line, "solver-diff:"); i >= 0 {
				line = line[i:]
			}
			solverDiff = append(solverDiff, line)
			fmt.Fprintln(os.Stderr, "  "+line)
			if strings.Contains(string(out), "DISAGREEMENT") {
				fmt.Fprintln(os.Stderr, "CHECK-ERROR: solvers disagree on a logged query")
				if rc == 0 {
					rc = 2
				}
			}
		}
		os.Remove(tr)
	}
	solverDiffGlobal = solverDiff
	if !*noEvidence && *only == "" {
		writeEvidence(id, *tier, seed, spec, hres, all, totalStats, time.Since(t0).Seconds(), loadS, nviol, vioOut, exhaustive, knownHit)
	}
	hs := hres
	fmt.Fprintf(os.Stderr, "[%s] tier=%s harnesses=%d paths=%d queries=%d solver=%.1fs wall=%.1fs violations=%d known=%d exit=%d\n",
		id, *tier, len(hs), all.paths, totalStats.queries, totalStats.wall.Seconds(), time.Since(t0).Seconds(), nviol, len(knownHit), rc)
	return rc
}

func (w *world) getMachine(id int) (*machine, error) {
	w.mmu.Lock()
	defer w.mmu.Unlock()
	if w.machines == nil {
		w.machines = map[int]*machine{}
	}
	if m, ok := w.machines[id]; ok {
		return m, nil
	}
	w.mmu.Unlock()
	m, err := newMachine(w, id)
	w.mmu.Lock()
	if err != nil {
		return nil, err
	}
	w.machines[id] = m
	return m, nil
}

func (w *world) closeMachines() {
	for _, m := range w.machines {
		m.sol.close()
	}
}

// ---------------------------------------------------------------------------
// known findings

type knownFinding struct {
	Property string `json:"property"`
	Status   string `json:"status"` // "known" | "fixed"
	Match    string `json:"match"`  // substring pattern over the signature harness|label|discr ('*' wildcards)
	What     string `json:"what"`
	Commit   string `json:"commit,omitempty"`
}

func loadKnownFindings(id string) (known, fixed []knownFinding) {
	b, err := os.ReadFile(filepath.Join(verifDir, "known_findings.json"))
	if err != nil {
		return nil, nil
	}
	var all []knownFinding
	if err := json.Unmarshal(b, &all); err != nil {
		fmt.Fprintln(os.Stderr, "CHECK-ERROR: known_findings.json:", err)
		os.Exit(2)
	}
	for _, k := range all {
		if k.Property != id {
			continue
		}
		if k.Status == "fixed" {
			fixed = append(fixed, k)
		} else {
			known = append(known, k)
		}
	}
	return
}

func globMatch(pat, s string) bool {
	parts := strings.Split(pat, "*")
	if len(parts) == 1 {
		return pat == s
	}
	if !strings.HasPrefix(s, parts[0]) {
		return false
	}
	s = s[len(parts[0]):]
	for i := 1; i < len(parts)-1; i++ {
		idx := strings.Index(s, parts[i])
		if idx < 0 {
			return false
		}
		s = s[idx+len(parts[i]):]
	}
	return strings.HasSuffix(s, parts[len(parts)-1])
}

func matchKnown(known []knownFinding, sig string) *knownFinding {
	for i := range known {
		if globMatch(known[i].Match, sig) {
			return &known[i]
		}
	}
	return nil
}

// ---------------------------------------------------------------------------
// evidence

func writeEvidence(id, tier string, seed int, spec *checkSpec, hres []harnessResult, all *results, st solverStats, wall, loadS float64, nviol int, vio []map[string]interface{}, exhaustive bool, knownHit map[string]bool) {
	type fnRec struct {
		Fn     string `json:"fn"`
		Instrs int    `json:"ssa_instrs"`
	}
	var fns []fnRec
	nTarget := 0
	for k, v := range all.fnsEncoded {
		if strings.Contains(k, "lesismal/nbio") && !strings.Contains(k, "verif") && !strings.Contains(k, "vk_") {
			fns = append(fns, fnRec{k, v})
			nTarget++
		}
	}
	sort.Slice(fns, func(i, j int) bool { return fns[i].Fn < fns[j].Fn })
	bounds := map[string]int64{}
	for _, h := range hres {
		for k, v := range h.Bounds {
			if old, ok := bounds[k]; !ok || v > old {
				bounds[k] = v
			}
		}
	}
	distinct := all.byKind["done"]
	var kf []string
	for k := range knownHit {
		kf = append(kf, k)
	}
	sort.Strings(kf)
	samples := all.samples
	if len(samples) > 8 {
		samples = samples[:8]
	}
	if len(samples) == 0 {
		samples = []map[string]interface{}{{"note": "no completed path"}}
	}
	cov := map[string]interface{}{
		"explanation": spec.Explanation + fmt.Sprintf(" This run: %d harness(es), %d symbolic paths explored to completion out of %d started; every path's branch feasibility and every assertion was decided by z3 over all values of the symbolic inputs on that path (%d queries, %.1fs solver time). Encoding regenerated from %s's working tree via go/packages+go/ssa on this run (%.1fs).", len(hres), all.byKind["done"], all.paths, st.queries, st.wall.Seconds(), repoDir, loadS),
		"evaluations":          all.paths,
		"distinct_nontrivial":  distinct,
		"rule":                 "one evaluation = one symbolic path (a distinct vector of branch/case-split/choice decisions, each proven feasible by the solver); non-trivial = the path ran to completion (end=done) and passed through the harness's assertions; each path stands for every concrete input satisfying its path condition",
		"samples":              samples,
		"exhaustive":           exhaustive,
		"functions_encoded":    fns,
		"functions_encoded_n":  nTarget,
		"bounds":               bounds,
		"harnesses":            hres,
		"paths_by_end":         all.byKind,
		"queries_discharged":   st.queries,
		"queries_sat":          st.sat,
		"queries_unsat":        st.unsat,
		"queries_unknown":      st.unknown,
		"solver_errors":        st.errors,
		"solver_time_s":        st.wall.Seconds(),
		"solver":               "z3 (z3 -in, one process per worker, push/pop)",
		"assertions_checked":   all.asserts,
		"assertions_symbolic":  all.assertsSym,
		"ssa_instructions_executed": all.steps,
		"violations_detail":    vio,
		"known_findings_hit":   kf,
		"reach_labels":         all.reached,
		"trusted_base":         []string{"gosym interpreter (/verif/engine)", "z3 4.8.12", "harness models named under stubs", "go/packages + go/ssa (x/tools v0.29.0)"},
		"solver_diff":          solverDiffGlobal,
		"stubs":                spec.Stubs,
		"outside_bounds":       spec.Out,
	}
	ev := map[string]interface{}{
		"property_id": id,
		"tier":        tier,
		"seed":        seed,
		"level":       "other",
		"coverage":    cov,
		"assumptions": spec.Assumptions,
		"wall_s":      wall,
		"violations":  nviol,
	}
	b, _ := json.MarshalIndent(ev, "", " ")
	os.MkdirAll(filepath.Join(verifDir, "evidence"), 0o755)
	os.WriteFile(filepath.Join(verifDir, "evidence", id+".json"), b, 0o644)
}

package main

// Terms: a hash-consed DAG of SMT bit-vector / Bool expressions with a light
// simplifier, an SMT-LIB2 printer and a concrete evaluator (used to reuse the
// last model instead of asking the solver about the side of a branch the model
// already satisfies).

import (
	"fmt"
	"math/bits"
	"strings"
)

type opcode uint8

const (
	opConst opcode = iota // k = value (width w; w==0 bool: 0/1)
	opSym                 // name
	opNot                 // bool not
	opAnd                 // bool and
	opOr                  // bool or
	opIte                 // a ? b : c  (a bool; b,c same sort)
	opEq                  // a == b  -> bool
	opUlt
	opUle
	opSlt
	opSle
	opBvNot
	opBvNeg
	opAdd
	opSub
	opMul
	opUdiv
	opUrem
	opSdiv
	opSrem
	opBvAnd
	opBvOr
	opBvXor
	opShl
	opLshr
	opAshr
	opZext   // a extended to w
	opSext   // a sign-extended to w
	opExtract // bits [k+w-1 : k] of a
	opConcat  // a ++ b (a high)
	opB2V    // bool -> bv1... (w bits: ite(a,1,0))
)

var opNames = map[opcode]string{
	opNot: "not", opAnd: "and", opOr: "or", opIte: "ite", opEq: "=",
	opUlt: "bvult", opUle: "bvule", opSlt: "bvslt", opSle: "bvsle",
	opBvNot: "bvnot", opBvNeg: "bvneg", opAdd: "bvadd", opSub: "bvsub", opMul: "bvmul",
	opUdiv: "bvudiv", opUrem: "bvurem", opSdiv: "bvsdiv", opSrem: "bvsrem",
	opBvAnd: "bvand", opBvOr: "bvor", opBvXor: "bvxor", opShl: "bvshl", opLshr: "bvlshr", opAshr: "bvashr",
	opConcat: "concat",
}

type term struct {
	op      opcode
	w       int // 0 = Bool, else bit width
	a, b, c *term
	k       uint64
	name    string
	id      int
	// solver bookkeeping: epoch in which a define-fun/declare was emitted
	defEpoch int
}

type termKey struct {
	op      opcode
	w       int
	a, b, c *term
	k       uint64
	name    string
}

type termTable struct {
	m      map[termKey]*term
	nextID int
	tt, ff *term
}

func newTermTable() *termTable {
	tb := &termTable{m: map[termKey]*term{}}
	tb.tt = tb.mk(termKey{op: opConst, w: 0, k: 1})
	tb.ff = tb.mk(termKey{op: opConst, w: 0, k: 0})
	return tb
}

func (tb *termTable) mk(k termKey) *term {
	if t, ok := tb.m[k]; ok {
		return t
	}
	tb.nextID++
	t := &term{op: k.op, w: k.w, a: k.a, b: k.b, c: k.c, k: k.k, name: k.name, id: tb.nextID}
	tb.m[k] = t
	return t
}

func mask(w int) uint64 {
	if w >= 64 {
		return ^uint64(0)
	}
	return (uint64(1) << uint(w)) - 1
}

func signExt(v uint64, w int) int64 {
	if w >= 64 {
		return int64(v)
	}
	sh := uint(64 - w)
	return int64(v<<sh) >> sh
}

func (tb *termTable) constBV(v uint64, w int) *term {
	if w == 0 {
		if v != 0 {
			return tb.tt
		}
		return tb.ff
	}
	return tb.mk(termKey{op: opConst, w: w, k: v & mask(w)})
}

func (tb *termTable) boolc(b bool) *term {
	if b {
		return tb.tt
	}
	return tb.ff
}

func (tb *termTable) sym(name string, w int) *term {
	return tb.mk(termKey{op: opSym, w: w, name: name})
}

func (t *term) isConst() bool { return t.op == opConst }

func (tb *termTable) not(a *term) *term {
	if a.isConst() {
		return tb.boolc(a.k == 0)
	}
	if a.op == opNot {
		return a.a
	}
	return tb.mk(termKey{op: opNot, a: a})
}

func (tb *termTable) and(a, b *term) *term {
	if a.isConst() {
		if a.k == 0 {
			return tb.ff
		}
		return b
	}
	if b.isConst() {
		if b.k == 0 {
			return tb.ff
		}
		return a
	}
	if a == b {
		return a
	}
	return tb.mk(termKey{op: opAnd, a: a, b: b})
}

func (tb *termTable) or(a, b *term) *term {
	if a.isConst() {
		if a.k != 0 {
			return tb.tt
		}
		return b
	}
	if b.isConst() {
		if b.k != 0 {
			return tb.tt
		}
		return a
	}
	if a == b {
		return a
	}
	return tb.mk(termKey{op: opOr, a: a, b: b})
}

func (tb *termTable) ite(c, a, b *term) *term {
	if c.isConst() {
		if c.k != 0 {
			return a
		}
		return b
	}
	if a == b {
		return a
	}
	if a.w == 0 && a.isConst() && b.isConst() {
		if a.k != 0 && b.k == 0 {
			return c
		}
		if a.k == 0 && b.k != 0 {
			return tb.not(c)
		}
	}
	return tb.mk(termKey{op: opIte, w: a.w, a: c, b: a, c: b})
}

func (tb *termTable) eq(a, b *term) *term {
	if a == b {
		return tb.tt
	}
	if a.isConst() && b.isConst() {
		return tb.boolc(a.k == b.k)
	}
	if a.w != b.w {
		panic(fmt.Sprintf("eq width mismatch %d %d", a.w, b.w))
	}
	if a.w == 0 {
		// bool equality
		if a.isConst() {
			if a.k != 0 {
				return b
			}
			return tb.not(b)
		}
		if b.isConst() {
			if b.k != 0 {
				return a
			}
			return tb.not(a)
		}
	}
	// zext(x) == const  -> narrow
	if b.isConst() && a.op == opZext {
		if b.k&^mask(a.a.w) != 0 {
			return tb.ff
		}
		return tb.eq(a.a, tb.constBV(b.k, a.a.w))
	}
	if a.isConst() && b.op == opZext {
		return tb.eq(b, a)
	}
	// ite(c, k1, k2) == k  with constants
	if b.isConst() && a.op == opIte && a.b.isConst() && a.c.isConst() {
		l, r := a.b.k == b.k, a.c.k == b.k
		switch {
		case l && r:
			return tb.tt
		case l:
			return a.a
		case r:
			return tb.not(a.a)
		default:
			return tb.ff
		}
	}
	if a.id > b.id {
		a, b = b, a
	}
	return tb.mk(termKey{op: opEq, a: a, b: b})
}

func (tb *termTable) cmp(op opcode, a, b *term) *term {
	if a.w != b.w {
		panic(fmt.Sprintf("cmp width mismatch %d %d", a.w, b.w))
	}
	if a.isConst() && b.isConst() {
		return tb.boolc(evalCmp(op, a.k, b.k, a.w))
	}
	if a == b {
		return tb.boolc(op == opUle || op == opSle)
	}
	// unsigned comparisons of zext'ed narrow values against constants
	if (op == opUlt || op == opUle) && a.op == opZext && b.isConst() {
		if b.k > mask(a.a.w) {
			return tb.tt
		}
		return tb.cmp(op, a.a, tb.constBV(b.k, a.a.w))
	}
	if (op == opUlt || op == opUle) && b.op == opZext && a.isConst() {
		if a.k > mask(b.a.w) {
			return tb.ff
		}
		return tb.cmp(op, tb.constBV(a.k, b.a.w), b.a)
	}
	if (op == opSlt || op == opSle) && a.op == opZext && b.isConst() && a.a.w < a.w {
		// zext value is non-negative
		if signExt(b.k, b.w) < 0 {
			return tb.ff
		}
		uop := opUlt
		if op == opSle {
			uop = opUle
		}
		return tb.cmp(uop, a, b)
	}
	if (op == opSlt || op == opSle) && b.op == opZext && a.isConst() && b.a.w < b.w {
		if signExt(a.k, a.w) < 0 {
			return tb.tt
		}
		uop := opUlt
		if op == opSle {
			uop = opUle
		}
		return tb.cmp(uop, a, b)
	}
	return tb.mk(termKey{op: op, a: a, b: b})
}

func evalCmp(op opcode, x, y uint64, w int) bool {
	switch op {
	case opUlt:
		return x < y
	case opUle:
		return x <= y
	case opSlt:
		return signExt(x, w) < signExt(y, w)
	case opSle:
		return signExt(x, w) <= signExt(y, w)
	}
	panic("evalCmp")
}

func evalBin(op opcode, x, y uint64, w int) uint64 {
	m := mask(w)
	switch op {
	case opAdd:
		return (x + y) & m
	case opSub:
		return (x - y) & m
	case opMul:
		return (x * y) & m
	case opUdiv:
		if y == 0 {
			return m
		}
		return x / y
	case opUrem:
		if y == 0 {
			return x
		}
		return x % y
	case opSdiv:
		sx, sy := signExt(x, w), signExt(y, w)
		if sy == 0 {
			if sx < 0 {
				return 1
			}
			return m
		}
		if sy == -1 {
			return uint64(-sx) & m
		}
		return uint64(sx/sy) & m
	case opSrem:
		sx, sy := signExt(x, w), signExt(y, w)
		if sy == 0 {
			return x
		}
		if sy == -1 {
			return 0
		}
		return uint64(sx%sy) & m
	case opBvAnd:
		return x & y
	case opBvOr:
		return x | y
	case opBvXor:
		return x ^ y
	case opShl:
		if y >= uint64(w) {
			return 0
		}
		return (x << y) & m
	case opLshr:
		if y >= uint64(w) {
			return 0
		}
		return x >> y
	case opAshr:
		sx := signExt(x, w)
		if y >= uint64(w) {
			if sx < 0 {
				return m
			}
			return 0
		}
		return uint64(sx>>y) & m
	}
	panic("evalBin")
}

func (tb *termTable) bin(op opcode, a, b *term) *term {
	if a.w != b.w {
		panic(fmt.Sprintf("bin %v width mismatch %d %d", op, a.w, b.w))
	}
	w := a.w
	if a.isConst() && b.isConst() {
		return tb.constBV(evalBin(op, a.k, b.k, w), w)
	}
	switch op {
	case opAdd:
		if a.isConst() && a.k == 0 {
			return b
		}
		if b.isConst() && b.k == 0 {
			return a
		}
		// (x + k1) + k2
		if b.isConst() && a.op == opAdd && a.b.isConst() {
			return tb.bin(opAdd, a.a, tb.constBV(a.b.k+b.k, w))
		}
		if a.isConst() {
			a, b = b, a
		}
	case opSub:
		if b.isConst() && b.k == 0 {
			return a
		}
		if a == b {
			return tb.constBV(0, w)
		}
		if b.isConst() {
			return tb.bin(opAdd, a, tb.constBV(-b.k, w))
		}
	case opMul:
		if a.isConst() {
			a, b = b, a
		}
		if b.isConst() {
			if b.k == 0 {
				return b
			}
			if b.k == 1 {
				return a
			}
		}
	case opBvAnd:
		if a.isConst() {
			a, b = b, a
		}
		if b.isConst() {
			if b.k == 0 {
				return b
			}
			if b.k == mask(w) {
				return a
			}
			// zext(x) & k where k covers all bits of x
			if a.op == opZext && b.k&mask(a.a.w) == mask(a.a.w) {
				return a
			}
		}
		if a == b {
			return a
		}
	case opBvOr:
		if a.isConst() {
			a, b = b, a
		}
		if b.isConst() {
			if b.k == 0 {
				return a
			}
			if b.k == mask(w) {
				return b
			}
		}
		if a == b {
			return a
		}
	case opBvXor:
		if a.isConst() {
			a, b = b, a
		}
		if b.isConst() && b.k == 0 {
			return a
		}
		if a == b {
			return tb.constBV(0, w)
		}
		// (x ^ y) ^ y -> x
		if a.op == opBvXor {
			if a.b == b {
				return a.a
			}
			if a.a == b {
				return a.b
			}
		}
		if b.op == opBvXor {
			if b.b == a {
				return b.a
			}
			if b.a == a {
				return b.b
			}
		}
	case opShl, opLshr, opAshr:
		if b.isConst() && b.k == 0 {
			return a
		}
		if a.isConst() && a.k == 0 {
			return a
		}
		if b.isConst() && b.k >= uint64(w) && op != opAshr {
			return tb.constBV(0, w)
		}
		// lshr of zext(x) by >= width(x) is zero
		if op == opLshr && b.isConst() && a.op == opZext && b.k >= uint64(a.a.w) {
			return tb.constBV(0, w)
		}
	case opUdiv, opSdiv:
		if b.isConst() && b.k == 1 {
			return a
		}
	}
	return tb.mk(termKey{op: op, w: w, a: a, b: b})
}

func (tb *termTable) bvnot(a *term) *term {
	if a.isConst() {
		return tb.constBV(^a.k, a.w)
	}
	if a.op == opBvNot {
		return a.a
	}
	return tb.mk(termKey{op: opBvNot, w: a.w, a: a})
}

func (tb *termTable) bvneg(a *term) *term {
	if a.isConst() {
		return tb.constBV(-a.k, a.w)
	}
	return tb.mk(termKey{op: opBvNeg, w: a.w, a: a})
}

func (tb *termTable) zext(a *term, w int) *term {
	if a.w == w {
		return a
	}
	if a.w > w {
		panic("zext narrowing")
	}
	if a.isConst() {
		return tb.constBV(a.k, w)
	}
	if a.op == opZext {
		return tb.zext(a.a, w)
	}
	return tb.mk(termKey{op: opZext, w: w, a: a})
}

func (tb *termTable) sext(a *term, w int) *term {
	if a.w == w {
		return a
	}
	if a.w > w {
		panic("sext narrowing")
	}
	if a.isConst() {
		return tb.constBV(uint64(signExt(a.k, a.w)), w)
	}
	if a.op == opZext && a.a.w < a.w {
		return tb.zext(a.a, w)
	}
	return tb.mk(termKey{op: opSext, w: w, a: a})
}

// extract bits [lo+w-1 : lo]
func (tb *termTable) extract(a *term, lo, w int) *term {
	if lo == 0 && w == a.w {
		return a
	}
	if a.isConst() {
		return tb.constBV(a.k>>uint(lo), w)
	}
	if (a.op == opZext || a.op == opSext) && lo == 0 && w <= a.a.w {
		return tb.extract(a.a, 0, w)
	}
	if a.op == opZext && lo >= a.a.w {
		return tb.constBV(0, w)
	}
	if a.op == opZext && lo == 0 && w > a.a.w {
		return tb.zext(a.a, w)
	}
	if a.op == opExtract {
		return tb.extract(a.a, lo+int(a.k), w)
	}
	if a.op == opConcat {
		// a.a high (width a.a.w), a.b low (width a.b.w)
		if lo+w <= a.b.w {
			return tb.extract(a.b, lo, w)
		}
		if lo >= a.b.w {
			return tb.extract(a.a, lo-a.b.w, w)
		}
	}
	// extraction distributes over bitwise ops at any offset
	switch a.op {
	case opBvAnd, opBvOr, opBvXor:
		return tb.bin(a.op, tb.extract(a.a, lo, w), tb.extract(a.b, lo, w))
	case opBvNot:
		return tb.bvnot(tb.extract(a.a, lo, w))
	case opShl:
		if a.b.isConst() {
			c := int(a.b.k)
			if lo >= c {
				return tb.extract(a.a, lo-c, w)
			}
			if lo+w <= c {
				return tb.constBV(0, w)
			}
		}
	}
	if a.op == opZext && lo+w <= a.a.w {
		return tb.extract(a.a, lo, w)
	}
	if a.op == opZext && lo < a.a.w && lo+w > a.a.w {
		return tb.zext(tb.extract(a.a, lo, a.a.w-lo), w)
	}
	// low-bits extraction distributes over bitwise ops and add/sub/mul (lo==0)
	if lo == 0 {
		switch a.op {
		case opBvAnd, opBvOr, opBvXor, opAdd, opSub, opMul:
			return tb.bin(a.op, tb.extract(a.a, 0, w), tb.extract(a.b, 0, w))
		case opIte:
			return tb.ite(a.a, tb.extract(a.b, 0, w), tb.extract(a.c, 0, w))
		}
	}
	if a.op == opLshr && a.b.isConst() && int(a.b.k)+lo+w <= a.w {
		return tb.extract(a.a, lo+int(a.b.k), w)
	}
	return tb.mk(termKey{op: opExtract, w: w, a: a, k: uint64(lo)})
}

func (tb *termTable) concat(hi, lo *term) *term {
	if hi.isConst() && lo.isConst() {
		return tb.constBV(hi.k<<uint(lo.w)|lo.k, hi.w+lo.w)
	}
	if hi.isConst() && hi.k == 0 {
		return tb.zext(lo, hi.w+lo.w)
	}
	return tb.mk(termKey{op: opConcat, w: hi.w + lo.w, a: hi, b: lo})
}

// b2v converts a Bool term to a w-bit 0/1 vector.
func (tb *termTable) b2v(a *term, w int) *term {
	return tb.ite(a, tb.constBV(1, w), tb.constBV(0, w))
}

// ---------------------------------------------------------------------------
// concrete evaluation under a model (missing symbols evaluate to 0)

type model map[string]uint64

func (t *term) eval(m model, memo map[*term]uint64) uint64 {
	if t.op == opConst {
		return t.k
	}
	if v, ok := memo[t]; ok {
		return v
	}
	var v uint64
	switch t.op {
	case opSym:
		v = m[t.name] & mask(t.w)
		if t.w == 0 {
			v = m[t.name] & 1
		}
	case opNot:
		v = 1 - t.a.eval(m, memo)
	case opAnd:
		v = t.a.eval(m, memo) & t.b.eval(m, memo)
	case opOr:
		v = t.a.eval(m, memo) | t.b.eval(m, memo)
	case opIte:
		if t.a.eval(m, memo) != 0 {
			v = t.b.eval(m, memo)
		} else {
			v = t.c.eval(m, memo)
		}
	case opEq:
		if t.a.eval(m, memo) == t.b.eval(m, memo) {
			v = 1
		}
	case opUlt, opUle, opSlt, opSle:
		if evalCmp(t.op, t.a.eval(m, memo), t.b.eval(m, memo), t.a.w) {
			v = 1
		}
	case opBvNot:
		v = ^t.a.eval(m, memo) & mask(t.w)
	case opBvNeg:
		v = -t.a.eval(m, memo) & mask(t.w)
	case opZext:
		v = t.a.eval(m, memo)
	case opSext:
		v = uint64(signExt(t.a.eval(m, memo), t.a.w)) & mask(t.w)
	case opExtract:
		v = (t.a.eval(m, memo) >> uint(t.k)) & mask(t.w)
	case opConcat:
		v = t.a.eval(m, memo)<<uint(t.b.w) | t.b.eval(m, memo)
	default:
		v = evalBin(t.op, t.a.eval(m, memo), t.b.eval(m, memo), t.w)
	}
	memo[t] = v
	return v
}

// ---------------------------------------------------------------------------
// SMT-LIB printing

func sortOf(w int) string {
	if w == 0 {
		return "Bool"
	}
	return fmt.Sprintf("(_ BitVec %d)", w)
}

func constLit(k uint64, w int) string {
	if w == 0 {
		if k != 0 {
			return "true"
		}
		return "false"
	}
	if w%4 == 0 {
		return fmt.Sprintf("#x%0*x", w/4, k)
	}
	return fmt.Sprintf("#b%0*b", w, k)
}

func (t *term) ref() string {
	switch t.op {
	case opConst:
		return constLit(t.k, t.w)
	case opSym:
		return t.name
	}
	return fmt.Sprintf("t%d", t.id)
}

// body prints the defining expression of a non-leaf term using refs to children.
func (t *term) body() string {
	switch t.op {
	case opNot, opBvNot, opBvNeg:
		return fmt.Sprintf("(%s %s)", opNames[t.op], t.a.ref())
	case opIte:
		return fmt.Sprintf("(ite %s %s %s)", t.a.ref(), t.b.ref(), t.c.ref())
	case opZext:
		return fmt.Sprintf("((_ zero_extend %d) %s)", t.w-t.a.w, t.a.ref())
	case opSext:
		return fmt.Sprintf("((_ sign_extend %d) %s)", t.w-t.a.w, t.a.ref())
	case opExtract:
		return fmt.Sprintf("((_ extract %d %d) %s)", int(t.k)+t.w-1, t.k, t.a.ref())
	default:
		return fmt.Sprintf("(%s %s %s)", opNames[t.op], t.a.ref(), t.b.ref())
	}
}

// emitDefs writes declarations/definitions for t and everything below it that
// has not been emitted in the given epoch. Iterative post-order to survive deep
// DAGs.
func (t *term) emitDefs(epoch int, sb *strings.Builder, syms *[]*term) {
	type fr struct {
		t *term
		i int
	}
	stack := []fr{{t, 0}}
	for len(stack) > 0 {
		f := &stack[len(stack)-1]
		x := f.t
		if x.op == opConst || x.defEpoch == epoch {
			stack = stack[:len(stack)-1]
			continue
		}
		var child *term
		switch f.i {
		case 0:
			child = x.a
		case 1:
			child = x.b
		case 2:
			child = x.c
		}
		if f.i < 3 {
			f.i++
			if child != nil && child.op != opConst && child.defEpoch != epoch {
				stack = append(stack, fr{child, 0})
			}
			continue
		}
		x.defEpoch = epoch
		if x.op == opSym {
			fmt.Fprintf(sb, "(declare-const %s %s)\n", x.name, sortOf(x.w))
			*syms = append(*syms, x)
		} else {
			fmt.Fprintf(sb, "(define-fun t%d () %s %s)\n", x.id, sortOf(x.w), x.body())
		}
		stack = stack[:len(stack)-1]
	}
}

// size returns the number of distinct nodes below t (bounded).
func (t *term) size(limit int) int {
	seen := map[*term]bool{}
	var rec func(x *term)
	rec = func(x *term) {
		if x == nil || seen[x] || len(seen) > limit {
			return
		}
		seen[x] = true
		rec(x.a)
		rec(x.b)
		rec(x.c)
	}
	rec(t)
	return len(seen)
}

func (t *term) String() string {
	if t.op == opConst || t.op == opSym {
		return t.ref()
	}
	var sb strings.Builder
	var rec func(x *term, d int)
	rec = func(x *term, d int) {
		if x.op == opConst || x.op == opSym {
			sb.WriteString(x.ref())
			return
		}
		if d > 6 {
			sb.WriteString("…")
			return
		}
		switch x.op {
		case opZext:
			sb.WriteString(fmt.Sprintf("(zext%d ", x.w))
		case opSext:
			sb.WriteString(fmt.Sprintf("(sext%d ", x.w))
		case opExtract:
			sb.WriteString(fmt.Sprintf("(extract[%d+%d] ", x.k, x.w))
		default:
			sb.WriteString("(" + opNames[x.op] + " ")
		}
		rec(x.a, d+1)
		if x.b != nil {
			sb.WriteString(" ")
			rec(x.b, d+1)
		}
		if x.c != nil {
			sb.WriteString(" ")
			rec(x.c, d+1)
		}
		sb.WriteString(")")
	}
	rec(t, 0)
	return sb.String()
}

var _ = bits.Len64

package main

// Operators on values: arithmetic (concrete fast path, symbolic terms
// otherwise), comparisons, equality, conversions.

import (
	"fmt"
	"go/constant"
	"go/token"
	"go/types"
	"math"
	"unicode/utf8"

	"golang.org/x/tools/go/ssa"
)

// uptrv is a uintptr value that carries a pointer or an unsafe pun token.
type uptrv struct {
	p   ptr
	tok interface{}
}

type strDataTok struct{ s value } // data pointer of a string

func (m *machine) toTerm(x sc, w int) *term {
	if x.t != nil {
		return x.t
	}
	return m.tb.constBV(x.c, w)
}

func (m *machine) fromTerm(t *term) value {
	if t.isConst() {
		return mkInt(t.k)
	}
	return sc{t: t}
}

func constValue(m *machine, c *ssa.Const) value {
	if c.Value == nil {
		return m.zero(c.Type())
	}
	t := c.Type().Underlying()
	if b, ok := t.(*types.Basic); ok {
		switch {
		case b.Info()&types.IsBoolean != 0:
			return mkBool(constant.BoolVal(c.Value))
		case b.Info()&types.IsString != 0:
			if c.Value.Kind() == constant.String {
				return constant.StringVal(c.Value)
			}
			return string(rune(c.Int64()))
		case b.Info()&types.IsInteger != 0:
			w, signed := widthOf(b)
			if signed {
				return mkInt(uint64(c.Int64()) & mask(w))
			}
			return mkInt(c.Uint64() & mask(w))
		case b.Info()&types.IsFloat != 0:
			return c.Float64()
		case b.Info()&types.IsComplex != 0:
			return c.Complex128()
		case b.Kind() == types.UnsafePointer:
			return ptr{}
		}
	}
	panic(engineError{fmt.Sprintf("constValue: unexpected constant %v of type %v", c, c.Type())})
}

var binopMap = map[token.Token]opcode{
	token.ADD: opAdd, token.SUB: opSub, token.MUL: opMul,
	token.AND: opBvAnd, token.OR: opBvOr, token.XOR: opBvXor,
}

func (m *machine) binop(op token.Token, t types.Type, x, y value, yT types.Type) value {
	// uintptr tokens: only comparisons with zero are meaningful
	if ux, ok := x.(uptrv); ok {
		return m.uptrOp(op, ux, y)
	}
	if uy, ok := y.(uptrv); ok && (op == token.EQL || op == token.NEQ) {
		return m.uptrOp(op, uy, x)
	}
	switch op {
	case token.EQL:
		return m.equals(t, x, y)
	case token.NEQ:
		return m.boolNot(m.equals(t, x, y).(sc))
	}
	switch xv := x.(type) {
	case sc:
		ys, ok := y.(sc)
		if !ok {
			panic(engineError{fmt.Sprintf("binop %v: sc with %T", op, y)})
		}
		return m.intBinop(op, t, xv, ys, yT)
	case float64:
		yv := y.(float64)
		isF32 := t.Underlying().(*types.Basic).Kind() == types.Float32
		r32 := func(f float64) value {
			if isF32 {
				return float64(float32(f))
			}
			return f
		}
		switch op {
		case token.ADD:
			return r32(xv + yv)
		case token.SUB:
			return r32(xv - yv)
		case token.MUL:
			return r32(xv * yv)
		case token.QUO:
			return r32(xv / yv)
		case token.LSS:
			return mkBool(xv < yv)
		case token.LEQ:
			return mkBool(xv <= yv)
		case token.GTR:
			return mkBool(xv > yv)
		case token.GEQ:
			return mkBool(xv >= yv)
		}
	case string, *symstr:
		return m.strBinop(op, x, y)
	}
	panic(engineError{fmt.Sprintf("binop %v on %T", op, x)})
}

func (m *machine) uptrOp(op token.Token, x uptrv, y value) value {
	switch op {
	case token.EQL, token.NEQ:
		eq := false
		switch yv := y.(type) {
		case sc:
			eq = false // a live pointer never equals an integer constant
		case uptrv:
			eq = x.p.slot == yv.p.slot && x.tok == yv.tok
		}
		if op == token.NEQ {
			eq = !eq
		}
		return mkBool(eq)
	}
	panic(pathEnd{kind: endUnsupported, msg: "arithmetic on pointer-carrying uintptr"})
}

func (m *machine) boolNot(x sc) value {
	if x.t == nil {
		return mkBool(x.c == 0)
	}
	return m.fromTerm(m.tb.not(x.t))
}

func (m *machine) intBinop(op token.Token, t types.Type, x, y sc, yT types.Type) value {
	w, signed := widthOf(t)
	if w == 0 {
		// boolean && / || never reach here (lowered to control flow); but
		// comparisons of bools do through equals. AND/OR on bools do not exist.
		panic(engineError{"intBinop on bool " + op.String()})
	}
	// shifts: y may have a different type
	if op == token.SHL || op == token.SHR {
		return m.shift(op, w, signed, x, y, yT)
	}
	if x.t == nil && y.t == nil {
		return m.concIntBinop(op, w, signed, x.c, y.c)
	}
	tx, ty := m.toTerm(x, w), m.toTerm(y, w)
	tb := m.tb
	switch op {
	case token.ADD, token.SUB, token.MUL, token.AND, token.OR, token.XOR:
		return m.fromTerm(tb.bin(binopMap[op], tx, ty))
	case token.AND_NOT:
		return m.fromTerm(tb.bin(opBvAnd, tx, tb.bvnot(ty)))
	case token.QUO, token.REM:
		// division by zero is a fork point
		if y.t != nil {
			isZero := tb.eq(ty, tb.constBV(0, w))
			if m.branch(isZero, "div-by-zero") {
				m.goPanic("runtime error: integer divide by zero")
			}
		} else if y.c == 0 {
			m.goPanic("runtime error: integer divide by zero")
		}
		var o opcode
		switch {
		case op == token.QUO && signed:
			o = opSdiv
		case op == token.QUO:
			o = opUdiv
		case signed:
			o = opSrem
		default:
			o = opUrem
		}
		// division by a power of two of a non-negative/unsigned value: keep as is
		return m.fromTerm(tb.bin(o, tx, ty))
	case token.LSS, token.LEQ, token.GTR, token.GEQ:
		var o opcode
		a, b := tx, ty
		switch op {
		case token.LSS:
			o = opUlt
		case token.LEQ:
			o = opUle
		case token.GTR:
			o = opUlt
			a, b = b, a
		case token.GEQ:
			o = opUle
			a, b = b, a
		}
		if signed {
			if o == opUlt {
				o = opSlt
			} else {
				o = opSle
			}
		}
		return m.fromTerm(tb.cmp(o, a, b))
	}
	panic(engineError{"intBinop: unexpected op " + op.String()})
}

func (m *machine) concIntBinop(op token.Token, w int, signed bool, x, y uint64) value {
	switch op {
	case token.ADD:
		return mkInt((x + y) & mask(w))
	case token.SUB:
		return mkInt((x - y) & mask(w))
	case token.MUL:
		return mkInt((x * y) & mask(w))
	case token.AND:
		return mkInt(x & y)
	case token.OR:
		return mkInt(x | y)
	case token.XOR:
		return mkInt(x ^ y)
	case token.AND_NOT:
		return mkInt(x &^ y)
	case token.QUO:
		if y == 0 {
			m.goPanic("runtime error: integer divide by zero")
		}
		if signed {
			return mkInt(evalBin(opSdiv, x, y, w))
		}
		return mkInt(x / y)
	case token.REM:
		if y == 0 {
			m.goPanic("runtime error: integer divide by zero")
		}
		if signed {
			return mkInt(evalBin(opSrem, x, y, w))
		}
		return mkInt(x % y)
	case token.LSS:
		if signed {
			return mkBool(signExt(x, w) < signExt(y, w))
		}
		return mkBool(x < y)
	case token.LEQ:
		if signed {
			return mkBool(signExt(x, w) <= signExt(y, w))
		}
		return mkBool(x <= y)
	case token.GTR:
		if signed {
			return mkBool(signExt(x, w) > signExt(y, w))
		}
		return mkBool(x > y)
	case token.GEQ:
		if signed {
			return mkBool(signExt(x, w) >= signExt(y, w))
		}
		return mkBool(x >= y)
	}
	panic(engineError{"concIntBinop: unexpected op " + op.String()})
}

func (m *machine) shift(op token.Token, w int, signed bool, x, y sc, yT types.Type) value {
	yw, ysigned := widthOf(yT)
	if y.t == nil {
		n := y.c
		if ysigned && signExt(n, yw) < 0 {
			m.goPanic("runtime error: negative shift amount")
		}
		if x.t == nil {
			var o opcode
			switch {
			case op == token.SHL:
				o = opShl
			case signed:
				o = opAshr
			default:
				o = opLshr
			}
			return mkInt(evalBin(o, x.c, n, w))
		}
		tb := m.tb
		if n >= uint64(w) {
			if op == token.SHR && signed {
				n = uint64(w - 1)
			} else {
				return mkInt(0)
			}
		}
		var o opcode
		switch {
		case op == token.SHL:
			o = opShl
		case signed:
			o = opAshr
		default:
			o = opLshr
		}
		return m.fromTerm(tb.bin(o, x.t, tb.constBV(n, w)))
	}
	// symbolic shift amount
	tb := m.tb
	ty := y.t
	if ysigned {
		neg := tb.cmp(opSlt, ty, tb.constBV(0, yw))
		if m.branch(neg, "negative-shift") {
			m.goPanic("runtime error: negative shift amount")
		}
	}
	// bring amount to width w, saturating
	var amt *term
	if yw <= w {
		amt = tb.zext(ty, w)
	} else {
		big := tb.cmp(opUle, tb.constBV(uint64(w), yw), ty)
		amt = tb.ite(big, tb.constBV(uint64(w), w), tb.extract(ty, 0, w))
	}
	tx := m.toTerm(x, w)
	var o opcode
	switch {
	case op == token.SHL:
		o = opShl
	case signed:
		o = opAshr
	default:
		o = opLshr
	}
	return m.fromTerm(tb.bin(o, tx, amt))
}

func (m *machine) strBinop(op token.Token, x, y value) value {
	xs, xok := x.(string)
	ys, yok := y.(string)
	if xok && yok {
		switch op {
		case token.ADD:
			return xs + ys
		case token.LSS:
			return mkBool(xs < ys)
		case token.LEQ:
			return mkBool(xs <= ys)
		case token.GTR:
			return mkBool(xs > ys)
		case token.GEQ:
			return mkBool(xs >= ys)
		}
	}
	if op == token.ADD {
		xb, yb := strBytes(x), strBytes(y)
		r := make([]value, 0, len(xb)+len(yb))
		r = append(r, xb...)
		r = append(r, yb...)
		return mkStr(r)
	}
	// lexicographic comparison with symbolic bytes: build term
	xb, yb := strBytes(x), strBytes(y)
	tb := m.tb
	// less(i): x[i:] < y[i:]
	n := len(xb)
	if len(yb) < n {
		n = len(yb)
	}
	// result for equal common prefix
	var lt, eq *term
	lt = tb.boolc(len(xb) < len(yb))
	eq = tb.boolc(len(xb) == len(yb))
	for i := n - 1; i >= 0; i-- {
		a, b := m.toTerm(xb[i].(sc), 8), m.toTerm(yb[i].(sc), 8)
		e := tb.eq(a, b)
		l := tb.cmp(opUlt, a, b)
		lt = tb.or(l, tb.and(e, lt))
		eq = tb.and(e, eq)
	}
	switch op {
	case token.LSS:
		return m.fromTerm(lt)
	case token.LEQ:
		return m.fromTerm(tb.or(lt, eq))
	case token.GTR:
		return m.fromTerm(tb.not(tb.or(lt, eq)))
	case token.GEQ:
		return m.fromTerm(tb.not(lt))
	}
	panic(engineError{"strBinop " + op.String()})
}

// equals returns a bool sc (possibly symbolic).
func (m *machine) equals(t types.Type, x, y value) value {
	switch xv := x.(type) {
	case nil:
		return mkBool(y == nil)
	case sc:
		yv, ok := y.(sc)
		if !ok {
			if _, isU := y.(uptrv); isU {
				return mkBool(false)
			}
			panic(engineError{fmt.Sprintf("equals sc vs %T", y)})
		}
		if xv.t == nil && yv.t == nil {
			return mkBool(xv.c == yv.c)
		}
		w := 64
		if t != nil {
			w, _ = widthOf(t)
		} else if xv.t != nil {
			w = xv.t.w
		} else {
			w = yv.t.w
		}
		return m.fromTerm(m.tb.eq(m.toTerm(xv, w), m.toTerm(yv, w)))
	case float64:
		return mkBool(xv == y.(float64))
	case string:
		if ys, ok := y.(string); ok {
			return mkBool(xv == ys)
		}
		return m.symStrEq(x, y)
	case *symstr:
		return m.symStrEq(x, y)
	case ptr:
		yv, ok := y.(ptr)
		if !ok {
			return mkBool(false)
		}
		if xv.sidx != nil || yv.sidx != nil {
			panic(pathEnd{kind: endUnsupported, msg: "comparison of symbolic element pointers"})
		}
		if xv.slot == nil && yv.slot == nil {
			return mkBool(xv.tok == yv.tok)
		}
		return mkBool(xv.slot == yv.slot)
	case iface:
		yv := y.(iface)
		if xv.t == nil || yv.t == nil {
			return mkBool(xv.t == nil && yv.t == nil)
		}
		if !types.Identical(xv.t, yv.t) {
			return mkBool(false)
		}
		if !types.Comparable(xv.t) {
			m.goPanic("runtime error: comparing uncomparable type " + xv.t.String())
		}
		return m.equals(xv.t, xv.v, yv.v)
	case structv:
		yv := y.(structv)
		st, _ := t.Underlying().(*types.Struct)
		acc := m.tb.tt
		for i := range xv {
			var ft types.Type
			if st != nil {
				if st.Field(i).Name() == "_" {
					continue
				}
				ft = st.Field(i).Type()
			}
			e := m.equals(ft, xv[i], yv[i]).(sc)
			if e.t == nil {
				if e.c == 0 {
					return mkBool(false)
				}
				continue
			}
			acc = m.tb.and(acc, e.t)
		}
		return m.fromTerm(acc)
	case *arrobj:
		yv := y.(*arrobj)
		var et types.Type
		if at, ok := t.Underlying().(*types.Array); ok {
			et = at.Elem()
		}
		acc := m.tb.tt
		for i := range xv.elems {
			e := m.equals(et, xv.elems[i], yv.elems[i]).(sc)
			if e.t == nil {
				if e.c == 0 {
					return mkBool(false)
				}
				continue
			}
			acc = m.tb.and(acc, e.t)
		}
		return m.fromTerm(acc)
	case *mapv:
		yv, _ := y.(*mapv)
		return mkBool(xv == yv)
	case *chanv:
		yv, _ := y.(*chanv)
		return mkBool(xv == yv)
	case slicev:
		// only comparison with nil is legal
		yv := y.(slicev)
		return mkBool(xv.arr == nil && yv.arr == nil)
	case *closure:
		return mkBool(y != nil && false)
	case *ssa.Function:
		if y == nil {
			return mkBool(xv == nil)
		}
		return mkBool(false)
	case uptrv:
		return m.uptrOp(token.EQL, xv, y)
	case *extErr:
		yv, _ := y.(*extErr)
		return mkBool(xv == yv)
	case complex128:
		return mkBool(xv == y.(complex128))
	}
	panic(engineError{fmt.Sprintf("equals: unhandled %T", x)})
}

func (m *machine) symStrEq(x, y value) value {
	if strLen(x) != strLen(y) {
		return mkBool(false)
	}
	xb, yb := strBytes(x), strBytes(y)
	acc := m.tb.tt
	for i := range xb {
		a, b := xb[i].(sc), yb[i].(sc)
		if a.t == nil && b.t == nil {
			if a.c != b.c {
				return mkBool(false)
			}
			continue
		}
		acc = m.tb.and(acc, m.tb.eq(m.toTerm(a, 8), m.toTerm(b, 8)))
	}
	return m.fromTerm(acc)
}

func (m *machine) unop(instr *ssa.UnOp, x value) value {
	switch instr.Op {
	case token.NOT:
		return m.boolNot(x.(sc))
	case token.SUB:
		switch xv := x.(type) {
		case sc:
			w, _ := widthOf(instr.Type())
			if xv.t == nil {
				return mkInt(-xv.c & mask(w))
			}
			return m.fromTerm(m.tb.bvneg(xv.t))
		case float64:
			return -xv
		}
	case token.XOR:
		xv := x.(sc)
		w, _ := widthOf(instr.Type())
		if xv.t == nil {
			return mkInt(^xv.c & mask(w))
		}
		return m.fromTerm(m.tb.bvnot(xv.t))
	}
	panic(engineError{fmt.Sprintf("unop %v on %T", instr.Op, x)})
}

// conv implements ssa.Convert.
func (m *machine) conv(tDst, tSrc types.Type, x value) value {
	ud, us := tDst.Underlying(), tSrc.Underlying()
	// pointer <-> unsafe.Pointer <-> uintptr
	if bd, ok := ud.(*types.Basic); ok && bd.Kind() == types.UnsafePointer {
		switch xv := x.(type) {
		case ptr:
			return xv
		case uptrv:
			if xv.tok != nil {
				return ptr{tok: xv.tok}
			}
			return xv.p
		case sc:
			if xv.t == nil && xv.c == 0 {
				return ptr{}
			}
		}
		panic(pathEnd{kind: endUnsupported, msg: fmt.Sprintf("conversion of %T to unsafe.Pointer", x)})
	}
	if bs, ok := us.(*types.Basic); ok && bs.Kind() == types.UnsafePointer {
		p := x.(ptr)
		switch d := ud.(type) {
		case *types.Pointer:
			return p
		case *types.Basic:
			if d.Kind() == types.Uintptr {
				if p.isNil() {
					return mkInt(0)
				}
				return uptrv{p: p, tok: p.tok}
			}
		}
		panic(pathEnd{kind: endUnsupported, msg: "conversion from unsafe.Pointer to " + tDst.String()})
	}
	switch d := ud.(type) {
	case *types.Basic:
		switch {
		case d.Info()&types.IsInteger != 0:
			switch xv := x.(type) {
			case sc:
				return m.convInt(tDst, tSrc, xv)
			case float64:
				w, signed := widthOf(tDst)
				if signed {
					return mkInt(uint64(int64(xv)) & mask(w))
				}
				return mkInt(uint64(xv) & mask(w))
			case uptrv:
				return xv
			}
		case d.Info()&types.IsFloat != 0:
			switch xv := x.(type) {
			case float64:
				if d.Kind() == types.Float32 {
					return float64(float32(xv))
				}
				return xv
			case sc:
				if xv.t != nil {
					panic(pathEnd{kind: endUnsupported, msg: "symbolic int to float conversion"})
				}
				w, signed := widthOf(tSrc)
				var f float64
				if signed {
					f = float64(signExt(xv.c, w))
				} else {
					f = float64(xv.c)
				}
				if d.Kind() == types.Float32 {
					return float64(float32(f))
				}
				return f
			}
		case d.Info()&types.IsString != 0:
			switch xv := x.(type) {
			case string, *symstr:
				return xv
			case sc: // string(rune)
				if xv.t != nil {
					panic(pathEnd{kind: endUnsupported, msg: "string(symbolic rune)"})
				}
				w, signed := widthOf(tSrc)
				r := rune(xv.c)
				if signed {
					r = rune(signExt(xv.c, w))
				}
				return string(r)
			case slicev:
				et := us.(*types.Slice).Elem().Underlying().(*types.Basic)
				if et.Kind() == types.Uint8 {
					b := make([]value, xv.len)
					for i := 0; i < xv.len; i++ {
						b[i] = m.loadElem(xv.arr, xv.off+i)
					}
					return mkStr(b)
				}
				// []rune
				rs := make([]rune, xv.len)
				for i := range rs {
					e := m.loadElem(xv.arr, xv.off+i).(sc)
					if e.t != nil {
						panic(pathEnd{kind: endUnsupported, msg: "string([]rune) symbolic"})
					}
					rs[i] = rune(e.c)
				}
				return string(rs)
			}
		}
	case *types.Slice:
		// []byte(string) or []rune(string)
		et := d.Elem().Underlying().(*types.Basic)
		if et.Kind() == types.Uint8 {
			b := strBytes(x)
			a := m.newArr(len(b), "bytes(string)")
			copy(a.elems, b)
			return slicev{arr: a, len: len(b), cap: len(b)}
		}
		s, ok := x.(string)
		if !ok {
			panic(pathEnd{kind: endUnsupported, msg: "[]rune(symbolic string)"})
		}
		rs := []rune(s)
		a := m.newArr(len(rs), "runes(string)")
		for i, r := range rs {
			a.elems[i] = mkInt(uint64(uint32(r)))
		}
		return slicev{arr: a, len: len(rs), cap: len(rs)}
	case *types.Pointer:
		if p, ok := x.(ptr); ok {
			return p
		}
	}
	panic(engineError{fmt.Sprintf("conv: %v <- %v (%T)", tDst, tSrc, x)})
}

func (m *machine) convInt(tDst, tSrc types.Type, x sc) value {
	wd, _ := widthOf(tDst)
	var ws int
	var ssigned bool
	if isIntegerType(tSrc) {
		ws, ssigned = widthOf(tSrc)
	} else {
		panic(engineError{"convInt from " + tSrc.String()})
	}
	if x.t == nil {
		if ssigned {
			return mkInt(uint64(signExt(x.c, ws)) & mask(wd))
		}
		return mkInt(x.c & mask(wd))
	}
	tb := m.tb
	switch {
	case wd == ws:
		return x
	case wd < ws:
		return m.fromTerm(tb.extract(x.t, 0, wd))
	case ssigned:
		return m.fromTerm(tb.sext(x.t, wd))
	default:
		return m.fromTerm(tb.zext(x.t, wd))
	}
}

var _ = math.MaxInt
var _ = utf8.RuneError

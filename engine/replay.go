package main

// Native replay of counterexamples: the harness is compiled with the real
// toolchain against /repo's working tree (go test -overlay) and fed the
// solver's model.

import (
	"context"
	"encoding/json"
	"fmt"
	"os"
	"os/exec"
	"path/filepath"
	"strings"
	"syscall"
	"time"
)

// labels that only the interpreter can observe (no native oracle)
var interpOnlyLabels = map[string]bool{
	"use-after-free": true, "deadlock": true, "fatal-unlock": true,
}

func writeAndReplay(dir string, spec *checkSpec, v *violationRec, overlay map[string][]byte) string {
	os.RemoveAll(dir)
	if err := os.MkdirAll(filepath.Join(dir, "overlay"), 0o755); err != nil {
		return "error: " + err.Error()
	}
	cex := map[string]interface{}{"label": v.Label, "discr": v.Discr, "harness": v.Harness, "inputs": v.Inputs, "msg": v.Msg,
		"notes": v.Notes, "decisions": v.Decs, "where": v.Where, "check": spec.ID}
	b, _ := json.MarshalIndent(cex, "", " ")
	os.WriteFile(filepath.Join(dir, "cex.json"), b, 0o644)
	// overlay files
	repl := map[string]string{}
	i := 0
	for virt, content := range overlay {
		real := filepath.Join(dir, "overlay", fmt.Sprintf("%d_%s", i, filepath.Base(virt)))
		i++
		content = nativeRewrite(virt, content)
		os.WriteFile(real, content, 0o644)
		repl[virt] = real
	}
	// syscall redirection for native builds: rewrite selectors in the target
	// package's own files when the harness defines vk_* models
	for virt, content := range nativeSyscallRewrites(spec, overlay) {
		real := filepath.Join(dir, "overlay", fmt.Sprintf("r%d_%s", i, filepath.Base(virt)))
		i++
		os.WriteFile(real, content, 0o644)
		repl[virt] = real
	}
	// the repository's own test files are left out of the replay build (their
	// init functions start engines on real sockets)
	if ents, err := os.ReadDir(filepath.Join(repoDir, spec.Dir)); err == nil {
		for _, e := range ents {
			if strings.HasSuffix(e.Name(), "_test.go") {
				repl[filepath.Join(repoDir, spec.Dir, e.Name())] = ""
			}
		}
	}
	pname, _ := packageNameOf(filepath.Join(repoDir, spec.Dir))
	test := fmt.Sprintf(`package %s

import (
	"fmt"
	"testing"
)

func TestVerifReplay(t *testing.T) {
	fails, div, p := verifRunNative(%s)
	fmt.Printf("VERIF-REPLAY failures=%%q diverged=%%v panic=%%v\n", fails, div, p)
	if len(fails) > 0 || p != nil {
		t.Fatalf("replay: assertion failures %%q panic %%v", fails, p)
	}
}
`, pname, v.Harness)
	tpath := filepath.Join(dir, "overlay", "zz_verif_replay_test.go")
	os.WriteFile(tpath, []byte(test), 0o644)
	repl[filepath.Join(repoDir, spec.Dir, "zz_verif_replay_test.go")] = tpath
	ob, _ := json.MarshalIndent(map[string]interface{}{"Replace": repl}, "", " ")
	os.WriteFile(filepath.Join(dir, "overlay.json"), ob, 0o644)
	script := fmt.Sprintf("#!/bin/sh\n# replays the counterexample natively against %s\ncd %s && VERIF_CEX=%s GOFLAGS=-mod=mod GOPROXY=off GOSUMDB=off GOTOOLCHAIN=local go test -vet=off -count=1 -timeout 120s -run TestVerifReplay -overlay %s .\n",
		repoDir, filepath.Join(repoDir, spec.Dir), filepath.Join(dir, "cex.json"), filepath.Join(dir, "overlay.json"))
	os.WriteFile(filepath.Join(dir, "replay.sh"), []byte(script), 0o755)
	if interpOnlyLabels[v.Label] {
		os.WriteFile(filepath.Join(dir, "status.txt"), []byte("interp-only\n"), 0o644)
		return "interp-only"
	}
	status, out := runReplay(dir)
	if status != "reproduced" {
		for _, in := range v.Inputs {
			if in.Tag == "sched" || in.Tag == "select" || strings.HasPrefix(in.Tag, "now") {
				// (a virtual-clock scenario cannot be replayed on the real clock either)
				// the native scheduler cannot be steered onto the recorded schedule
				status = "interp-only"
				break
			}
		}
	}
	if status != "reproduced" && v.PoolChoices > 0 {
		// the real sync.Pool cannot be told which of its free buffers to hand out
		status = "interp-only"
	}
	os.WriteFile(filepath.Join(dir, "native_output.txt"), []byte(out), 0o644)
	os.WriteFile(filepath.Join(dir, "status.txt"), []byte(status+"\n"), 0o644)
	return status
}

func runReplay(dir string) (status, output string) {
	to := 180 * time.Second
	if strings.Contains(filepath.Base(dir), "_hang_") {
		to = 30 * time.Second
	}
	if b, err := os.ReadFile(filepath.Join(dir, "cex.json")); err == nil && strings.Contains(string(b), `"tag": "sched"`) {
		// a schedule-dependent counterexample rarely reproduces under the native
		// scheduler; it gets one short attempt
		to = 40 * time.Second
	}
	ctx, cancel := context.WithTimeout(context.Background(), to)
	defer cancel()
	cmd := exec.CommandContext(ctx, "/bin/sh", filepath.Join(dir, "replay.sh"))
	cmd.Env = os.Environ()
	cmd.SysProcAttr = &syscall.SysProcAttr{Setpgid: true}
	cmd.Cancel = func() error { return syscall.Kill(-cmd.Process.Pid, syscall.SIGKILL) }
	cmd.WaitDelay = 2 * time.Second
	out, err := cmd.CombinedOutput()
	output = string(out)
	b, _ := os.ReadFile(filepath.Join(dir, "cex.json"))
	var cex struct{ Label, Discr string }
	json.Unmarshal(b, &cex)
	// the discriminator may name a closure, which the two worlds spell differently
	want := "VERIF-ASSERT-FAILED " + cex.Label + "|"
	switch {
	case ctx.Err() != nil:
		if cex.Label == "hang" || cex.Label == "step-budget" {
			return "reproduced", output
		}
		return "timeout", output
	case strings.Contains(output, want):
		return "reproduced", output
	case cex.Label == "uncaught-panic" && (strings.Contains(output, "panic:") || strings.Contains(output, "panic=") && !strings.Contains(output, "panic=<nil>")):
		return "reproduced", output
	case strings.Contains(output, "VERIF-DIVERGED") || strings.Contains(output, "VERIF-ASSUME-FAILED"):
		return "diverged", output
	case strings.Contains(output, "[build failed]") || strings.Contains(output, "[setup failed]"):
		return "build-failed", output
	case err == nil:
		return "not-reproduced", output
	default:
		return "not-reproduced", output
	}
}

func nativeRewrite(path string, content []byte) []byte { return content }

func cmdReplay(args []string) int {
	if len(args) < 1 {
		fmt.Fprintln(os.Stderr, "usage: gosym replay <dir>")
		return 2
	}
	status, out := runReplay(args[0])
	fmt.Print(out)
	fmt.Println("replay status:", status)
	if status == "reproduced" {
		return 1
	}
	return 0
}

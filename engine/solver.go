package main

// One live `z3 -in` process per worker. Terms are sent as named define-funs at
// the path-level scope; queries are push/assert/check-sat/pop. Any "(error"
// line, "unknown" or timeout is reported as inconclusive by the caller.

import (
	"bufio"
	"fmt"
	"io"
	"os"
	"os/exec"
	"strconv"
	"strings"
	"time"
)

type solverResult int

const (
	resUnsat solverResult = iota
	resSat
	resUnknown
)

func (r solverResult) String() string {
	return [...]string{"unsat", "sat", "unknown"}[r]
}

type solver struct {
	cmd      *exec.Cmd
	in       io.WriteCloser
	out      *bufio.Reader
	bin      string
	args     []string
	epoch    int
	syms     []*term // declared in this epoch
	asserted []*term // path condition (for logging / diffing)
	stats    *solverStats
	logf     *os.File // optional query log (SMT-LIB transcript)
	timeoutMs int
	onAssert  func(t *term)
	logged    int
	logLimit  int
}

type solverStats struct {
	queries, sat, unsat, unknown int
	wall                        time.Duration
	errors                      int
}

func newSolver(bin string, timeoutMs int, logPath string) (*solver, error) {
	s := &solver{bin: bin, stats: &solverStats{}, timeoutMs: timeoutMs}
	switch {
	case strings.Contains(bin, "cvc5"):
		s.args = []string{"--incremental", "--lang", "smt2", "--produce-models"}
	default:
		s.args = []string{"-in"}
	}
	if logPath != "" {
		f, err := os.Create(logPath)
		if err != nil {
			return nil, err
		}
		s.logf = f
	}
	if err := s.start(); err != nil {
		return nil, err
	}
	return s, nil
}

func (s *solver) start() error {
	s.cmd = exec.Command(s.bin, s.args...)
	in, err := s.cmd.StdinPipe()
	if err != nil {
		return err
	}
	out, err := s.cmd.StdoutPipe()
	if err != nil {
		return err
	}
	s.cmd.Stderr = s.cmd.Stdout
	if err := s.cmd.Start(); err != nil {
		return err
	}
	s.in = in
	s.out = bufio.NewReaderSize(out, 1<<16)
	s.preamble()
	return nil
}

func (s *solver) preamble() {
	if strings.Contains(s.bin, "cvc5") {
		s.send("(set-logic QF_BV)\n")
		s.send(fmt.Sprintf("(set-option :tlimit-per %d)\n", s.timeoutMs))
	} else {
		s.send("(set-option :produce-models true)\n")
		s.send(fmt.Sprintf("(set-option :timeout %d)\n", s.timeoutMs))
	}
}

func (s *solver) close() {
	if s.in != nil {
		s.in.Close()
	}
	if s.cmd != nil && s.cmd.Process != nil {
		s.cmd.Process.Kill()
		s.cmd.Wait()
	}
	if s.logf != nil {
		s.logf.Close()
	}
}

func (s *solver) send(str string) {
	if s.logf != nil {
		s.logf.WriteString(str)
	}
	if _, err := io.WriteString(s.in, str); err != nil {
		panic(engineError{"solver pipe write: " + err.Error()})
	}
}

// newPath resets the solver for a fresh path.
func (s *solver) newPath() {
	s.epoch++
	s.syms = s.syms[:0]
	s.asserted = s.asserted[:0]
	s.send("(reset)\n")
	s.preamble()
}

func (s *solver) define(t *term) {
	var sb strings.Builder
	t.emitDefs(s.epoch, &sb, &s.syms)
	if sb.Len() > 0 {
		s.send(sb.String())
	}
}

// assert adds t to the path condition.
func (s *solver) assert(t *term) {
	if t.isConst() && t.k != 0 {
		return
	}
	s.define(t)
	s.send("(assert " + t.ref() + ")\n")
	s.asserted = append(s.asserted, t)
	if s.onAssert != nil {
		s.onAssert(t)
	}
}

func (s *solver) readLine() string {
	line, err := s.out.ReadString('\n')
	if err != nil {
		panic(engineError{"solver pipe read: " + err.Error()})
	}
	return strings.TrimSpace(line)
}

// check asks whether PC ∧ extra is satisfiable. If wantModel and sat, the model
// of all declared symbols is returned.
func (s *solver) check(extra *term, wantModel bool) (solverResult, model) {
	t0 := time.Now()
	defer func() { s.stats.wall += time.Since(t0) }()
	s.stats.queries++
	if extra != nil {
		s.define(extra)
		s.send("(push 1)\n(assert " + extra.ref() + ")\n")
	}
	s.send("(check-sat)\n")
	var res solverResult
	sawErr := false
	for {
		line := s.readLine()
		if line == "" {
			continue
		}
		if strings.HasPrefix(line, "(error") {
			sawErr = true
			s.stats.errors++
			fmt.Fprintf(os.Stderr, "solver error: %s\n", line)
			continue
		}
		switch line {
		case "sat":
			res = resSat
		case "unsat":
			res = resUnsat
		case "unknown", "timeout":
			res = resUnknown
		default:
			fmt.Fprintf(os.Stderr, "solver: unexpected line %q\n", line)
			sawErr = true
			continue
		}
		break
	}
	var m model
	if res == resSat && wantModel && !sawErr {
		m = s.getModel()
	}
	if extra != nil {
		s.send("(pop 1)\n")
	}
	// sync: make sure no stray error lines are pending
	s.send("(echo \"##sync\")\n")
	for {
		line := s.readLine()
		if strings.Contains(line, "##sync") {
			break
		}
		if strings.HasPrefix(line, "(error") {
			sawErr = true
			s.stats.errors++
			fmt.Fprintf(os.Stderr, "solver error: %s\n", line)
		}
	}
	if sawErr {
		res = resUnknown
	}
	if s.logf != nil {
		s.logf.WriteString("; RESULT " + res.String() + "\n")
		s.logged++
		if s.logLimit > 0 && s.logged >= s.logLimit {
			s.logf.Close()
			s.logf = nil
		}
	}
	switch res {
	case resSat:
		s.stats.sat++
	case resUnsat:
		s.stats.unsat++
	default:
		s.stats.unknown++
	}
	return res, m
}

func (s *solver) getModel() model {
	m := model{}
	if len(s.syms) == 0 {
		return m
	}
	var sb strings.Builder
	sb.WriteString("(get-value (")
	for _, x := range s.syms {
		sb.WriteString(x.name)
		sb.WriteByte(' ')
	}
	sb.WriteString("))\n")
	s.send(sb.String())
	// read balanced s-expression
	depth := 0
	var txt strings.Builder
	started := false
	for !started || depth > 0 {
		line := s.readLine()
		if strings.HasPrefix(line, "(error") {
			s.stats.errors++
			fmt.Fprintf(os.Stderr, "solver error (get-value): %s\n", line)
			return nil
		}
		for _, ch := range line {
			if ch == '(' {
				depth++
				started = true
			} else if ch == ')' {
				depth--
			}
		}
		txt.WriteString(line)
		txt.WriteByte(' ')
	}
	// parse pairs "(name value)"
	str := txt.String()
	str = strings.ReplaceAll(str, "(", " ( ")
	str = strings.ReplaceAll(str, ")", " ) ")
	toks := strings.Fields(str)
	for i := 0; i+2 < len(toks); i++ {
		if toks[i] == "(" && toks[i+1] != "(" && toks[i+2] != "(" && toks[i+2] != ")" {
			name, val := toks[i+1], toks[i+2]
			switch {
			case val == "true":
				m[name] = 1
			case val == "false":
				m[name] = 0
			case strings.HasPrefix(val, "#x"):
				v, _ := strconv.ParseUint(val[2:], 16, 64)
				m[name] = v
			case strings.HasPrefix(val, "#b"):
				v, _ := strconv.ParseUint(val[2:], 2, 64)
				m[name] = v
			case val == "_":
				// (_ bvN w)
				if i+3 < len(toks) && strings.HasPrefix(toks[i+3], "bv") {
					v, _ := strconv.ParseUint(toks[i+3][2:], 10, 64)
					m[name] = v
				}
			}
		}
	}
	return m
}

package main

// Builtins (append, copy, len, ...), maps, range iterators.

import (
	"fmt"
	"go/types"
	"sort"
	"unicode/utf8"

	"golang.org/x/tools/go/ssa"
)

func (th *thread) callBuiltin(caller *frame, fn *ssa.Builtin, args []value, site ssa.Instruction) value {
	m := th.m
	switch fn.Name() {
	case "append":
		return m.appendSlice(fn, args)
	case "copy":
		dst := args[0].(slicev)
		n := dst.len
		switch src := args[1].(type) {
		case slicev:
			if src.len < n {
				n = src.len
			}
			if n > 0 {
				m.checkPoison(&dst.arr.obj, "copy-to")
				m.checkPoison(&src.arr.obj, "copy-from")
				m.copyElems(dst.arr, dst.off, src.arr, src.off, n)
			}
		case string, *symstr:
			b := strBytes(src)
			if len(b) < n {
				n = len(b)
			}
			if n > 0 {
				m.checkPoison(&dst.arr.obj, "copy-to")
				for i := 0; i < n; i++ {
					m.setElem(dst.arr, dst.off+i, b[i])
				}
			}
		default:
			panic(engineError{fmt.Sprintf("copy from %T", src)})
		}
		return mkInt(uint64(n))
	case "close":
		th.chanClose(args[0])
		return nil
	case "delete":
		mp, _ := args[0].(*mapv)
		if mp != nil {
			m.mapDelete(mp, args[1])
		}
		return nil
	case "print", "println":
		return nil
	case "len":
		switch x := args[0].(type) {
		case string:
			return mkInt(uint64(len(x)))
		case *symstr:
			return mkInt(uint64(len(x.b)))
		case slicev:
			return mkInt(uint64(x.len))
		case *arrobj:
			return mkInt(uint64(len(x.elems)))
		case ptr:
			if x.slot == nil {
				// len of nil *array is the array length; take from type
				if at, ok := deref(site.(*ssa.Call).Call.Args[0].Type()).Underlying().(*types.Array); ok {
					return mkInt(uint64(at.Len()))
				}
			}
			return mkInt(uint64(len((*x.slot).(*arrobj).elems)))
		case *mapv:
			if x == nil {
				return mkInt(0)
			}
			return mkInt(uint64(x.n))
		case *chanv:
			if x == nil {
				return mkInt(0)
			}
			return mkInt(uint64(len(x.buf)))
		}
		panic(engineError{fmt.Sprintf("len of %T", args[0])})
	case "cap":
		switch x := args[0].(type) {
		case slicev:
			return mkInt(uint64(x.cap))
		case *arrobj:
			return mkInt(uint64(len(x.elems)))
		case ptr:
			return mkInt(uint64(len((*x.slot).(*arrobj).elems)))
		case *chanv:
			if x == nil {
				return mkInt(0)
			}
			return mkInt(uint64(x.cap))
		}
		panic(engineError{fmt.Sprintf("cap of %T", args[0])})
	case "min", "max":
		// integer only, via ite
		t := site.(*ssa.Call).Type()
		acc := args[0]
		for _, a := range args[1:] {
			var c value
			if fn.Name() == "min" {
				c = m.binop(tokLSS, t, a, acc, t)
			} else {
				c = m.binop(tokGTR, t, a, acc, t)
			}
			acc = m.iteVal(c.(sc), a, acc, t)
		}
		return acc
	case "panic":
		panic(targetPanic{v: args[0], where: m.curPos()})
	case "recover":
		return th.doRecover(caller)
	case "ssa:wrapnilchk":
		recv := args[0]
		if p, ok := recv.(ptr); ok && p.isNil() {
			m.goPanic("value method called using nil pointer")
		}
		return recv
	case "SliceData":
		x := args[0].(slicev)
		if x.arr == nil || x.cap == 0 || x.off >= len(x.arr.elems) {
			return ptr{}
		}
		return ptr{slot: &x.arr.elems[x.off], own: &x.arr.obj, arr: x.arr, idx: x.off}
	case "StringData":
		if strLen(args[0]) == 0 {
			return ptr{}
		}
		return ptr{tok: strDataTok{args[0]}}
	case "String":
		p := args[0].(ptr)
		n := int(m.argInt(args[1], "unsafe.String"))
		if n == 0 {
			return ""
		}
		if sd, ok := p.tok.(strDataTok); ok {
			b := strBytes(sd.s)
			return mkStr(b[:n])
		}
		if p.arr == nil || p.idx+n > len(p.arr.elems) {
			panic(pathEnd{kind: endUnsupported, msg: "unsafe.String on non-array pointer"})
		}
		m.checkPoison(&p.arr.obj, "read")
		return mkStr(p.arr.elems[p.idx : p.idx+n])
	case "Slice":
		p := args[0].(ptr)
		n := int(m.argInt(args[1], "unsafe.Slice"))
		if p.isNil() {
			if n != 0 {
				m.goPanic("unsafe.Slice: ptr is nil and len is not zero")
			}
			return slicev{}
		}
		if sd, ok := p.tok.(strDataTok); ok {
			b := strBytes(sd.s)
			a := m.newArr(len(b), "stringdata")
			copy(a.elems, b)
			return slicev{arr: a, len: n, cap: n}
		}
		if p.arr == nil || p.idx+n > len(p.arr.elems) {
			panic(pathEnd{kind: endUnsupported, msg: "unsafe.Slice on non-array pointer"})
		}
		return slicev{arr: p.arr, off: p.idx, len: n, cap: n}
	case "clear":
		switch x := args[0].(type) {
		case *mapv:
			if x != nil {
				m.journalMap(x)
				x.entries = nil
				x.index = map[interface{}]*mapEntry{}
				x.n = 0
			}
		case slicev:
			et := site.(*ssa.Call).Call.Args[0].Type().Underlying().(*types.Slice).Elem()
			for i := 0; i < x.len; i++ {
				m.setElem(x.arr, x.off+i, m.zero(et))
			}
		}
		return nil
	}
	panic(pathEnd{kind: endUnsupported, msg: "builtin " + fn.Name()})
}

func (m *machine) iteVal(c sc, a, b value, t types.Type) value {
	if c.t == nil {
		if c.c != 0 {
			return a
		}
		return b
	}
	w, _ := widthOf(t)
	return m.fromTerm(m.tb.ite(c.t, m.toTerm(a.(sc), w), m.toTerm(b.(sc), w)))
}

func (m *machine) setElem(a *arrobj, i int, v value) {
	m.journalSlot(&a.elems[i], &a.obj)
	a.elems[i] = v
}

func (m *machine) copyElems(dst *arrobj, doff int, src *arrobj, soff int, n int) {
	if dst == src && doff > soff {
		for i := n - 1; i >= 0; i-- {
			m.setElem(dst, doff+i, m.copyVal(src.elems[soff+i]))
		}
		return
	}
	for i := 0; i < n; i++ {
		m.setElem(dst, doff+i, m.copyVal(src.elems[soff+i]))
	}
}

// growCap mirrors the runtime's growslice capacity rule closely enough for
// byte slices; exact capacities after append are implementation-defined in Go,
// and no property may depend on them.
func growCap(oldCap, need int) int {
	newcap := oldCap
	doublecap := newcap + newcap
	if need > doublecap {
		return roundupsize(need)
	}
	const threshold = 256
	if oldCap < threshold {
		return roundupsize(doublecap)
	}
	for newcap < need {
		newcap += (newcap + 3*threshold) / 4
	}
	return roundupsize(newcap)
}

var sizeClasses = []int{0, 8, 16, 24, 32, 48, 64, 80, 96, 112, 128, 144, 160, 176, 192, 208, 224, 240, 256, 288, 320, 352, 384, 416, 448, 480, 512, 576, 640, 704, 768, 896, 1024, 1152, 1280, 1408, 1536, 1792, 2048, 2304, 2688, 3072, 3200, 3456, 4096, 4864, 5376, 6144, 6528, 6784, 6912, 8192, 9472, 9728, 10240, 10880, 12288, 13568, 14336, 16384, 18432, 19072, 20480, 21760, 24576, 27264, 28672, 32768}

func roundupsize(n int) int {
	if n <= 32768 {
		i := sort.SearchInts(sizeClasses, n)
		return sizeClasses[i]
	}
	return (n + 8191) &^ 8191
}

func (m *machine) appendSlice(fn *ssa.Builtin, args []value) value {
	dst := args[0].(slicev)
	var srcLen int
	var srcGet func(i int) value
	switch src := args[1].(type) {
	case slicev:
		srcLen = src.len
		if srcLen > 0 {
			m.checkPoison(&src.arr.obj, "append-from")
		}
		srcGet = func(i int) value { return m.copyVal(src.arr.elems[src.off+i]) }
	case string, *symstr:
		b := strBytes(src)
		srcLen = len(b)
		srcGet = func(i int) value { return b[i] }
	default:
		panic(engineError{fmt.Sprintf("append from %T", src)})
	}
	if srcLen == 0 {
		return dst
	}
	if dst.arr != nil {
		m.checkPoison(&dst.arr.obj, "append-to")
	}
	need := dst.len + srcLen
	if need <= dst.cap {
		// snapshot source first when it aliases dst (overlap)
		tmp := make([]value, srcLen)
		for i := range tmp {
			tmp[i] = srcGet(i)
		}
		for i := 0; i < srcLen; i++ {
			m.setElem(dst.arr, dst.off+dst.len+i, tmp[i])
		}
		return slicev{arr: dst.arr, off: dst.off, len: need, cap: dst.cap}
	}
	nc := growCap(dst.cap, need)
	// element size matters for the real runtime; for non-byte elements just use need or double
	if fn == nil {
		a := m.newArr(nc, "append")
		for i := 0; i < dst.len; i++ {
			a.elems[i] = dst.arr.elems[dst.off+i]
		}
		for i := 0; i < srcLen; i++ {
			a.elems[dst.len+i] = srcGet(i)
		}
		for i := need; i < nc; i++ {
			a.elems[i] = smallInts[0]
		}
		return slicev{arr: a, len: need, cap: nc}
	}
	if sig, ok := fn.Type().(*types.Signature); ok && sig.Params().Len() > 0 {
		if st, ok := sig.Params().At(0).Type().Underlying().(*types.Slice); ok {
			if b, ok := st.Elem().Underlying().(*types.Basic); !ok || b.Kind() != types.Uint8 {
				nc = dst.cap * 2
				if nc < need {
					nc = need
				}
			}
			a := m.newArr(nc, "append")
			for i := 0; i < dst.len; i++ {
				a.elems[i] = m.copyVal(dst.arr.elems[dst.off+i])
			}
			for i := 0; i < srcLen; i++ {
				a.elems[dst.len+i] = srcGet(i)
			}
			m.fillZero(a.elems[need:], st.Elem())
			return slicev{arr: a, len: need, cap: nc}
		}
	}
	panic(engineError{"append: cannot determine element type"})
}

// ---------------------------------------------------------------------------
// maps

func (m *machine) makeMap(kt types.Type) *mapv {
	m.nextObj++
	return &mapv{obj: obj{id: m.nextObj, epoch: m.epoch, what: "map"}, kt: kt, index: map[interface{}]*mapEntry{}}
}

type hkStruct struct{ s string }

// hashKey returns a comparable Go value for a fully concrete key.
func hashKey(v value) (interface{}, bool) {
	switch v := v.(type) {
	case sc:
		if v.t != nil {
			return nil, false
		}
		return v.c, true
	case string:
		return v, true
	case *symstr:
		return nil, false
	case float64:
		return v, true
	case ptr:
		if v.sidx != nil {
			return nil, false
		}
		return v.slot, true
	case iface:
		if v.t == nil {
			return hkStruct{"nil"}, true
		}
		k, ok := hashKey(v.v)
		if !ok {
			return nil, false
		}
		return hkStruct{fmt.Sprintf("%s|%T|%v", v.t.String(), k, k)}, true
	case structv:
		s := "{"
		for _, f := range v {
			k, ok := hashKey(f)
			if !ok {
				return nil, false
			}
			s += fmt.Sprintf("%T:%v,", k, k)
		}
		return hkStruct{s}, true
	case *arrobj:
		s := "["
		for _, f := range v.elems {
			k, ok := hashKey(f)
			if !ok {
				return nil, false
			}
			s += fmt.Sprintf("%T:%v,", k, k)
		}
		return hkStruct{s}, true
	case *chanv:
		return v, true
	case nil:
		return hkStruct{"nilfunc"}, true
	}
	return nil, false
}

func (m *machine) journalMap(mp *mapv) {
	if m.epoch > 0 && mp.epoch < m.epoch && mp.jEpoch != m.epoch {
		mp.jEpoch = m.epoch
		// snapshot
		es := make([]*mapEntry, len(mp.entries))
		saved := make([]mapEntry, len(mp.entries))
		for i, e := range mp.entries {
			es[i] = e
			saved[i] = *e
		}
		var idx map[interface{}]*mapEntry
		if mp.index != nil {
			idx = make(map[interface{}]*mapEntry, len(mp.index))
			for k, v := range mp.index {
				idx[k] = v
			}
		}
		n := mp.n
		m.undo = append(m.undo, func() {
			for i, e := range es {
				*e = saved[i]
			}
			mp.entries = es
			mp.index = idx
			mp.n = n
		})
	}
}

// mapFind returns the entry for key (forking on symbolic key equality).
func (m *machine) mapFind(mp *mapv, key value) *mapEntry {
	if mp.index != nil {
		if hk, ok := hashKey(key); ok {
			return mp.index[hk]
		}
	}
	for _, e := range mp.entries {
		if e.del {
			continue
		}
		eq := m.equals(mp.kt, e.k, key).(sc)
		if eq.t == nil {
			if eq.c != 0 {
				return e
			}
			continue
		}
		if m.branch(eq.t, "mapkey") {
			return e
		}
	}
	return nil
}

func (m *machine) mapInsert(mp *mapv, key, v value) {
	m.journalMap(mp)
	if e := m.mapFind(mp, key); e != nil {
		e.v = v
		return
	}
	e := &mapEntry{k: key, v: v}
	mp.entries = append(mp.entries, e)
	mp.n++
	if mp.index != nil {
		if hk, ok := hashKey(key); ok {
			mp.index[hk] = e
		} else {
			mp.index = nil
		}
	}
}

func (m *machine) mapDelete(mp *mapv, key value) {
	m.journalMap(mp)
	e := m.mapFind(mp, key)
	if e == nil {
		return
	}
	e.del = true
	mp.n--
	if mp.index != nil {
		if hk, ok := hashKey(key); ok {
			delete(mp.index, hk)
		}
	}
	// compact occasionally
	if len(mp.entries) > 2*mp.n+8 {
		var ne []*mapEntry
		for _, x := range mp.entries {
			if !x.del {
				ne = append(ne, x)
			}
		}
		mp.entries = ne
	}
}

func (m *machine) lookup(instr *ssa.Lookup, x, idx value) value {
	switch xv := x.(type) {
	case *mapv:
		vt := instr.X.Type().Underlying().(*types.Map).Elem()
		var v value
		ok := false
		if xv != nil {
			if e := m.mapFind(xv, idx); e != nil {
				v, ok = m.copyVal(e.v), true
			}
		}
		if !ok {
			v = m.zero(vt)
		}
		if instr.CommaOk {
			return tuple{v, mkBool(ok)}
		}
		return v
	case string, *symstr:
		// string index via Lookup
		i := idx.(sc)
		n := strLen(xv)
		m.boundsCheck(i, instr.Index.Type(), n, "strlookup")
		b := strBytes(xv)
		if i.t == nil {
			return b[i.c]
		}
		a := &arrobj{elems: b}
		return m.loadSym(ptr{arr: a, sidx: m.idx64(i, instr.Index.Type()), lo: 0, hi: n}, instr.Type())
	}
	panic(engineError{fmt.Sprintf("Lookup on %T", x)})
}

// ---------------------------------------------------------------------------
// range iterators

type iterator interface {
	next(m *machine) value
}

type mapIter struct {
	entries []*mapEntry
	i       int
}

func (it *mapIter) next(m *machine) value {
	for it.i < len(it.entries) {
		e := it.entries[it.i]
		it.i++
		if e.del {
			continue
		}
		return tuple{mkBool(true), e.k, m.copyVal(e.v)}
	}
	return tuple{mkBool(false), nil, nil}
}

type strIter struct {
	s string
	i int
}

func (it *strIter) next(m *machine) value {
	if it.i >= len(it.s) {
		return tuple{mkBool(false), mkInt(0), mkInt(0)}
	}
	i := it.i
	r, n := decodeRune(it.s[i:])
	it.i += n
	return tuple{mkBool(true), mkInt(uint64(i)), mkInt(uint64(uint32(r)))}
}

func (m *machine) rangeIter(x value, t types.Type) iterator {
	switch xv := x.(type) {
	case *mapv:
		if xv == nil {
			return &mapIter{}
		}
		es := make([]*mapEntry, len(xv.entries))
		copy(es, xv.entries)
		if m.mapRotate > 0 && len(es) > 1 {
			k := m.mapRotate % len(es)
			es = append(es[k:], es[:k]...)
		}
		return &mapIter{entries: es}
	case string:
		return &strIter{s: xv}
	case *symstr:
		return &symStrIter{s: xv}
	}
	panic(engineError{fmt.Sprintf("range over %T", x)})
}

func decodeRune(s string) (rune, int) {
	return utf8.DecodeRuneInString(s)
}


// symStrIter ranges over a string with symbolic bytes by running the real
// unicode/utf8.DecodeRuneInString on the remaining suffix (forks as needed).
type symStrIter struct {
	s *symstr
	i int
}

func (it *symStrIter) next(m *machine) value {
	if it.i >= len(it.s.b) {
		return tuple{mkBool(false), mkInt(0), mkInt(0)}
	}
	pkg := m.prog.ImportedPackage("unicode/utf8")
	if pkg == nil {
		panic(pathEnd{kind: endUnsupported, msg: "range over symbolic string: unicode/utf8 not loaded"})
	}
	fn := pkg.Func("DecodeRuneInString")
	th := m.cur
	saved := th.fr
	r := th.call(th.fr, fn, []value{mkStr(it.s.b[it.i:])}, nil).(tuple)
	th.fr = saved
	size := int(m.concretize(r[1].(sc), 64, "rune-size"))
	i := it.i
	it.i += size
	return tuple{mkBool(true), mkInt(uint64(i)), r[0]}
}

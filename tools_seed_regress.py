#!/usr/bin/env python3
"""Re-run the seeded corpus against the current checks: for every seeded/<id>
whose meta.json names a catching check (caught_by: "Cxx quick|thorough:
<harness>…"), apply patch.diff to /repo, run that check restricted to that
harness, undo, and report whether a VIOLATION line came out. /repo must be
clean; nothing is committed there. usage: tools_seed_regress.py [seed-id …]"""
import json, os, re, subprocess, sys, time
V = os.path.dirname(os.path.abspath(__file__))
env = dict(os.environ, GOFLAGS='-mod=mod', GOPROXY='off', GOSUMDB='off', GOTOOLCHAIN='local')
def sh(*a, **k): return subprocess.run(a, env=env, stdout=subprocess.PIPE, stderr=subprocess.STDOUT, text=True, **k)
if sh('git', '-C', '/repo', 'status', '--porcelain').stdout.strip():
    sys.exit('/repo not clean')
ids = sys.argv[1:] or sorted(d for d in os.listdir(V + '/seeded') if os.path.isdir(V + '/seeded/' + d))
bad = 0
for d in ids:
    m = json.load(open(f'{V}/seeded/{d}/meta.json'))
    mm = re.match(r'\s*(C\d\d)\s+(quick|thorough)[^:]*:\s*([A-Za-z0-9_]+)', m.get('caught_by', ''))
    if m.get('caught') == 'no' or not mm:
        print(f'SKIP   {d} (not claimed: {m.get("caught")})', flush=True); continue
    chk, tier, only = mm.groups()
    only = re.sub(r'^verifHarness_C\d\d_', '', only)
    r = sh('git', '-C', '/repo', 'apply', f'{V}/seeded/{d}/patch.diff')
    if r.returncode:
        print(f'NOAPPLY {d}', flush=True); bad += 1; continue
    t0 = time.time()
    try:
        r = sh(f'{V}/bin/gosym', 'check', chk, '--tier', tier, '--only', only, '--no-evidence', cwd=V, timeout=1500)
        out = r.stdout
    except subprocess.TimeoutExpired:
        out = 'TIMEOUT'
    finally:
        sh('git', '-C', '/repo', 'checkout', '--', '.')
    hit = [l for l in out.splitlines() if l.startswith('VIOLATION')]
    if hit:
        print(f'CAUGHT {d} by {chk} {tier} {only} ({time.time()-t0:.0f}s): {hit[0][:160]}', flush=True)
    else:
        bad += 1
        tail = [l for l in out.splitlines() if 'tier=' in l or 'ERROR' in l or 'INCOMPLETE' in l][-1:]
        print(f'MISSED {d} by {chk} {tier} {only} ({time.time()-t0:.0f}s): {tail}', flush=True)
print(f'done: {bad} not caught')
sys.exit(1 if bad else 0)

#!/usr/bin/env python3
# usage: tools_seed_store.py <ID> <seed name> <caught: yes|no|after-strengthening> <caught_by check/harness> <what it needs (text)>
import sys, os, json, shutil, glob, subprocess
sid, name, caught, by, needs = sys.argv[1:6]
src = '/tmp/seed/%s.out' % sid
dst = '/verif/seeded/%s' % name
os.makedirs(dst, exist_ok=True)
for f in glob.glob(src + '/*'):
    if os.path.isfile(f):
        shutil.copy(f, dst)
def tail(p):
    try: return open(p).read()[-600:]
    except Exception: return ''
res = subprocess.run(['grep', '-h', 'RESULT', '/tmp/seed/%s.verify.log' % sid], capture_output=True, text=True).stdout.strip()
meta = {
  "property": sid if len(sys.argv) < 7 else sys.argv[6],
  "source": "independent sub-agent given only the property text and a scratch worktree of /repo (HEAD at the time; rounds 1-2: 371dc0b, round 3: 5de3a8c)",
  "needs_to_manifest": needs,
  "confirmed": {
     "how": "tools_seed_verify.sh: go build ./...; demo (go test -run Seed in the demo's package) with the change; same with the change reverted; full suite `go test -vet=off -count=1 ./...` with the change and the demo set aside",
     "result": res or "demo fails with the change (rc=1), passes without it (rc=0), full suite passes with it (rc=0)",
  },
  "caught": caught,
  "caught_by": by,
  "how_checked": "git -C /repo apply patch.diff; ./bin/gosym check <id>; git -C /repo checkout -- .  (tools_seed_check.sh)",
}
json.dump(meta, open(dst + '/meta.json', 'w'), indent=1)
print('stored', dst)

#!/bin/bash
# usage: tools_seed_verify.sh <ID> — confirm a seeded change: builds, demo fails with it and passes without it, suite passes with it
export GOFLAGS=-mod=mod GOPROXY=off GOSUMDB=off GOTOOLCHAIN=local
ID=$1; W=/tmp/seed/$ID; O=/tmp/seed/$ID.out
cd $W || exit 2
P=$O/patch.diff
[ -s $P ] || { echo "no patch"; exit 2; }
demo=$(git status --short | grep -o '[^ ]*zz_seed[^ ]*\.go' | head -1)
[ -n "$demo" ] || demo=$(find . -name 'zz_seed*' | head -1)
dir=$(dirname $demo)
echo "demo=$demo dir=$dir"
# make sure the change is applied
git apply --check -R $P 2>/dev/null || { git checkout -- . ; git apply $P || { echo "patch does not apply"; exit 2; }; }
go build ./... || { echo "BUILD FAILS"; exit 1; }
go test -vet=off -count=1 -run 'Seed' ./$dir/ > /tmp/seed/$ID.with.log 2>&1; rc_with=$?
git apply -R $P
go test -vet=off -count=1 -run 'Seed' ./$dir/ > /tmp/seed/$ID.without.log 2>&1; rc_without=$?
git apply $P
mkdir -p /tmp/seed/$ID.aside; for f in $(find . -name 'zz_seed*'); do mv $f /tmp/seed/$ID.aside/$(echo $f | tr '/' '_'); done
go test -vet=off -count=1 ./... > /tmp/seed/$ID.suite.log 2>&1; rc_suite=$?
if [ $rc_suite -ne 0 ]; then sleep 5; go test -vet=off -count=1 ./... > /tmp/seed/$ID.suite.log 2>&1; rc_suite=$?; fi
for f in /tmp/seed/$ID.aside/*; do b=$(basename $f); t=$(echo $b | sed 's#^\._##; s#_zz_seed#/zz_seed#; s#^\([a-z]*\)_\([a-z]*\)/zz#\1/\2/zz#'); cp $f $W/$demo 2>/dev/null; done
echo "RESULT $ID demo_with_change_rc=$rc_with demo_without_rc=$rc_without suite_with_change_rc=$rc_suite"

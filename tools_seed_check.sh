#!/bin/bash
# usage: tools_seed_check.sh <seed dir with patch.diff> <check id> [extra gosym args] — apply the seeded change to /repo, run the check, undo
P=$1/patch.diff; C=$2; shift 2
cd /repo && git diff --quiet || { echo "/repo not clean"; exit 2; }
git -C /repo apply $P || { echo "patch does not apply to /repo"; exit 2; }
cd /verif && ./bin/gosym check $C --no-evidence "$@" 2>&1 | grep -v "^    \|^  viol" | grep "VIOLATION\|KNOWN\|DISAGREE\|tier=\|INCOMPLETE\|VACUOUS" | head -12
git -C /repo checkout -- .
git -C /repo status --short | head -3

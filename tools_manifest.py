#!/usr/bin/env python3
# Regenerates MANIFEST.json from the table below (kept in one place so it stays valid).
import json
TECH = "bounded symbolic execution of the real code's go/ssa (own interpreter) + z3 deciding every path condition and assertion"
claimed = {
 "C12": ("§5 C12", "For every sender role, message type, payload length in the stated classes, frame-size limit and cut position, and for ALL payload bytes and ALL 32-bit mask keys (solver-decided), WriteMessage's frames are well-formed and the receiving endpoint's Parse delivers the message exactly once with equal type and payload. Without compression.",
         "Trusted: the gosym interpreter (validated by selftest + native replay of every counterexample), z3. Bounds: payload lengths 0..12 and 125..128, 65535/65536 (thorough) with first/last 9 bytes symbolic beyond 12; text payloads ASCII; <=2 cuts; per-message deflate outside the claim."),
 "C13": ("§5 C13", "One fully symbolic frame (all 16 header bits, 16/64-bit extended length bytes, mask key, payload <=4 bytes) in each fragmentation state is run through the real Parse; the solver shows the endpoint fails the connection iff an RFC 6455 reference acceptor (one term per rule) rejects, nothing offending is delivered, ping->pong with same payload, close->close; all 65536 close codes through validCloseCode in one query set.",
         "Trusted: interpreter, z3, the reference acceptor in harness/websocket/zz_verif_c13.go (don't-care inputs listed in DESIGN). Bounds: single frame per state, payload <=4 bytes; compressed frame contents and the upgrade handshake outside."),
 "C15": ("§5 C15", "Symbolic MessageLengthLimit and symbolic 7/16/64-bit declared frame length (fresh and continuation): no delivery/buffering beyond the limit, too-large => error and close 1009, no wrap-around bypass; readAll against an arbitrary reader (solver-chosen read counts and errors) with the real pooled allocator; control frames >125 refused on send and receive; ReadLimit bounds accumulation of unparsed input.",
         "Trusted: interpreter, z3. The decompressor is replaced by an arbitrary io.Reader (over-approximates any inflater incl. bombs; says nothing about flate itself). Bounds: limit<=12, <=3 reader calls, pooled buffer size 8."),
 "C20": ("§5 C20", "Programs of 3 operations (Malloc/Append/AppendString/Realloc/Free) over up to 3 live buffers with symbolic contents and size classes around bucket boundaries, for MemPool (small parameters), AlignedAllocator and the std allocator; sync.Pool.Get may return ANY previously freed buffer or a new one. Lengths, content preservation and disjointness of live buffers asserted after every step.",
         "Trusted: interpreter, the nondeterministic sync.Pool model. Bounds: 3 ops, stated size classes; concurrent use outside."),
}
na = {
 "C01": "check not built yet (in progress this session)",
 "C02": "check not built yet (in progress this session)",
 "C03": "check not built yet (in progress this session)",
 "C04": "check not built yet (in progress this session)",
 "C05": "check not built yet (in progress this session)",
 "C06": "check not built yet (in progress this session)",
 "C07": "check not built yet (in progress this session)",
 "C08": "check not built yet (in progress this session)",
 "C09": "check not built yet (in progress this session)",
 "C10": "check not built yet (in progress this session)",
 "C11": "check not built yet (in progress this session)",
 "C14": "check not built yet (in progress this session)",
 "C16": "check not built yet (in progress this session)",
 "C17": "check not built yet (in progress this session)",
 "C18": "check not built yet (in progress this session)",
 "C19": "check not built yet (in progress this session)",
}
import os, sys
ov = os.path.join(os.path.dirname(os.path.abspath(__file__)), "manifest_table.json")
if os.path.exists(ov):
    t = json.load(open(ov))
    claimed = {k: tuple(v) for k, v in t["claimed"].items()}
    na = t["na"]
checks = []
for pid in sorted(claimed):
    ref, text, note = claimed[pid]
    checks.append({
        "property_id": pid,
        "quick_cmd": "./check %s quick" % pid,
        "thorough_cmd": "./check %s thorough" % pid,
        "evidence_file": "/verif/evidence/%s.json" % pid,
        "replay_cmd_template": "./bin/gosym replay {path}",
        "engine": "gosym",
        "level_claimed": {"category": "other", "text": text, "design_ref": ref},
        "level_note": note,
        "technique": TECH,
    })
m = {
 "version": 1,
 "setup_cmd": "cd /verif/engine && GOFLAGS=-mod=mod GOPROXY=off GOSUMDB=off GOTOOLCHAIN=local go build -o /verif/bin/gosym . && cd /verif && ./bin/gosym selftest",
 "hooks": {"guard": "verif", "enable": "no source hooks: harnesses, kernel models and scaled-constant copies are injected as go/packages overlay files (virtual /repo/<pkg>/zz_verif_*.go) at run time; native replays use `go test -overlay`", 
           "baseline_off_cmd": "cd /repo && go test -vet=off -count=1 -timeout 25m ./...", "source_commits": [], "add_only": True},
 "engines": [{"name": "gosym", "path": "/verif/engine", "serves_properties": sorted(claimed), "kind_free_text": "bounded symbolic executor for go/ssa (x/tools v0.29.0) with z3 -in back end, native replay of counterexamples via go test -overlay"}],
 "checks": checks,
 "not_applicable": [{"property_id": k, "reason": v} for k, v in sorted(na.items())],
 "notes": "All checks use one technique: symbolic execution of the real functions' SSA with solver-decided path conditions and assertions. Exit codes: 0 held; 1 VIOLATION (replayed natively); 2 CHECK-ERROR / ENGINE-DISAGREEMENT; 3 VACUOUS; 4 INCOMPLETE (a path unsupported/inconclusive/over budget). Known findings: /verif/known_findings.json (status fixed: repaired by the named commit, suppresses nothing; status known: open, the check prints KNOWN-FINDING for exactly that signature and exits 0; no open entry at present, see DESIGN 10.3). Seeded changes and which check catches which: /verif/seeded, DESIGN 11.",
}
json.dump(m, open(os.path.join(os.path.dirname(os.path.abspath(__file__)), "MANIFEST.json"), "w"), indent=1)
print("MANIFEST.json: %d checks, %d not_applicable" % (len(checks), len(na)))

package timer

// C19 (timer.Async part) — functions run exactly once each, one at a time, in
// FIFO order, under all schedules of the producers and the drainer.

// a second wave after the queue has drained (and, with the scaled threshold,
// has been shrunk): functions submitted later still run
func verifHarness_C19_async_after_drain() {
	t := New("verif")
	verifSched(true, 1)
	ran := map[int]int{}
	for wave := 0; wave < 2; wave++ {
		for i := 0; i < 3; i++ {
			id := wave*3 + i
			t.Async(func() { ran[id]++ })
		}
		verifJoin()
	}
	for id := 0; id < 6; id++ {
		verifAssertD(ran[id] == 1, "async-function-runs-exactly-once", "after-drain")
	}
	verifAssertD(len(t.asyncList) == 0, "async-queue-empty-at-quiescence", "after-drain")
	verifAssert(false, "witness")
}

func verifHarness_C19_async_fifo() {
	verifBound("producers", 2)
	verifBound("functions_each", 2)
	t := New("verif")
	verifSched(true, 2)
	seq := 0
	tick := func() int { seq++; return seq }
	callAt := map[int]int{}
	retAt := map[int]int{}
	startAt := map[int]int{}
	runs := map[int]int{}
	running, maxRun := 0, 0
	for p := 0; p < 2; p++ {
		p := p
		verifGo(func() {
			for j := 0; j < 2; j++ {
				id := p*2 + j
				pj := id == 0 && verifBool("panics")
				callAt[id] = tick()
				t.Async(func() {
					runs[id]++
					startAt[id] = tick()
					running++
					if running > maxRun {
						maxRun = running
					}
					verifYield()
					running--
					if pj {
						panic("async function panics")
					}
				})
				retAt[id] = tick()
			}
		})
	}
	verifJoin()
	for id := 0; id < 4; id++ {
		verifAssertD(runs[id] == 1, "async-function-runs-exactly-once", "")
	}
	verifAssertD(maxRun <= 1, "async-functions-run-one-at-a-time", "")
	for a := 0; a < 4; a++ {
		for b := 0; b < 4; b++ {
			if a != b && retAt[a] < callAt[b] && runs[a] == 1 && runs[b] == 1 {
				verifAssertD(startAt[a] < startAt[b], "async-functions-run-in-fifo-order", "")
			}
		}
	}
	verifAssertD(len(t.asyncList) == 0, "async-queue-empty-at-quiescence", "")
	verifAssert(false, "witness")
}

package nbhttp

import (
	"bufio"
	"bytes"
	"net/http"
)

// C07, responses — a direct differential: the same solver-built well-formed
// response goes through nbio's client Parser + ClientProcessor and through the
// real net/http.ReadResponse (interpreted); what the two extract must agree.

// shape 0: status line (code digits, reason phrase); 1: Content-Length body and
// a free header; 2: chunked body with trailer
func verifC07Response(shape int) {
	minor := verifChoose("minor", 2)
	if shape == 2 {
		minor = 1 // net/http ignores Transfer-Encoding in HTTP/1.0 messages: outside the agreement subset
	}
	w := []byte("HTTP/1.")
	w = append(w, byte('0'+minor), ' ')
	// status code 2dd..5dd; codes that never carry a body (1xx, 204, 304) are a
	// separate harness
	var d0, d1, d2 byte = '2', '0', '0'
	if shape == 0 {
		d0 = verifByte("status_digit")
		d1 = verifByte("status_digit")
		d2 = verifByte("status_digit")
		verifAssume(verifAnd(d0 >= '2', d0 <= '5'))
		verifAssume(verifAnd(d1 >= '0', d1 <= '9'))
		verifAssume(verifAnd(d2 >= '0', d2 <= '9'))
		verifAssume(!verifAnd(d0 == '2', verifAnd(d1 == '0', d2 == '4')))
		verifAssume(!verifAnd(d0 == '3', verifAnd(d1 == '0', d2 == '4')))
	}
	w = append(w, d0, d1, d2)
	wantCode := 100*int(d0-'0') + 10*int(d1-'0') + int(d2-'0')
	var reason []byte
	if shape == 0 {
		switch verifChoose("reason_form", 4) {
		case 0: // no reason phrase at all: "HTTP/1.1 200 \r\n"
			w = append(w, ' ')
		case 1: // one word of two letters
			reason = verifBytes("reason", 2)
			for _, c := range reason {
				verifAssume(verifOr(verifAnd(c >= 'a', c <= 'z'), verifAnd(c >= 'A', c <= 'Z')))
			}
			w = append(w, ' ')
			w = append(w, reason...)
		case 2: // two words
			reason = []byte("Not Found")
			w = append(w, ' ')
			w = append(w, reason...)
		case 3: // any visible characters
			reason = verifBytes("reason", 2)
			for _, c := range reason {
				verifAssume(verifVisible(c))
			}
			w = append(w, ' ')
			w = append(w, reason...)
		}
	} else {
		reason = []byte("OK")
		w = append(w, " OK"...)
	}
	w = append(w, '\r', '\n')
	var hname, hval []byte
	if shape == 1 {
		hname = verifBytes("hname", 1)
		verifAssume(verifTokenChar(hname[0]))
		hval = verifBytes("hval", 2)
		for _, c := range hval {
			verifAssume(verifVisible(c))
		}
		w = append(w, 'X')
		w = append(w, hname...)
		w = append(w, ':')
		if verifChoose("ows", 2) == 1 {
			w = append(w, ' ')
		}
		w = append(w, hval...)
		w = append(w, '\r', '\n')
	}
	var body []byte
	trailer := false
	switch shape {
	case 0:
		w = append(w, "Content-Length: 0\r\n\r\n"...)
	case 1:
		n := verifChoose("body_len", 4)
		body = verifBytes("body", n)
		w = append(w, "Content-Length: "...)
		w = append(w, byte('0'+n), '\r', '\n', '\r', '\n')
		w = append(w, body...)
	case 2:
		trailer = verifChoose("trailer", 2) == 1
		if trailer {
			w = append(w, "Trailer: X-T\r\n"...)
		}
		w = append(w, "Transfer-Encoding: chunked\r\n\r\n"...)
		nch := verifChoose("chunks", 3)
		for k := 0; k < nch; k++ {
			n := 1 + verifChoose("chunk_len", 2)
			c := verifBytes("chunk", n)
			w = append(w, byte('0'+n), '\r', '\n')
			w = append(w, c...)
			w = append(w, '\r', '\n')
			body = append(body, c...)
		}
		w = append(w, '0', '\r', '\n')
		if trailer {
			w = append(w, "X-T: tv\r\n"...)
		}
		w = append(w, '\r', '\n')
	}
	msgLen := len(w)
	next := verifChoose("successor", 2) == 1
	if next {
		w = append(w, "HTTP/1.1 299 Next\r\nContent-Length: 0\r\n\r\n"...)
	}

	// the reference
	br := bufio.NewReader(bytes.NewReader(append([]byte(nil), w...)))
	ref, err := http.ReadResponse(br, nil)
	if err != nil {
		verifFail("reference-rejects-well-formed-response", "")
		return
	}
	want := verifSnapshotRes(ref)
	verifAssertD(want.code == wantCode, "reference-status-code", "net/http")
	_ = msgLen

	// nbio
	e := verifHTTPEngine()
	var seen []*verifSeenRes
	cc := &ClientConn{Engine: e}
	proc := NewClientProcessor(cc, func(res *http.Response, err error) {
		if res != nil {
			seen = append(seen, verifSnapshotRes(res))
		}
	})
	conn := &verifNetConn{failAt: -1}
	p := NewParser(conn, e, proc, true, nil)
	panics0 := verifPanicCount()
	perr := p.Parse(append([]byte(nil), w...))
	verifAssertD(verifPanicCount() == panics0, "no-panic-inside-parse", "response")
	verifAssertD(perr == nil, "well-formed-message-accepted", "response")
	n := 1
	if next {
		n = 2
	}
	verifAssertD(len(seen) == n, "message-count", "response")
	if len(seen) == 0 {
		return
	}
	got := seen[0]
	verifAssertD(got.code == want.code, "status-code", "response")
	verifAssertD(got.major == want.major && got.minor == want.minor, "version", "response")
	if shape == 1 {
		k := http.CanonicalHeaderKey("X" + string(hname))
		gv, wv := got.header[k], want.header[k]
		verifAssertD(len(gv) == 1 && len(wv) == 1, "header-present-once", "response")
		if len(gv) == 1 && len(wv) == 1 {
			a, b := verifTrimOWS(gv[0]), verifTrimOWS(wv[0])
			verifAssertD(len(a) == len(b) && verifEqString(a, b), "header-value-modulo-ows", "response")
		}
	}
	if shape != 1 {
		// every header name is concrete here: the whole multimaps are compared
		// net/http moves Transfer-Encoding and Trailer out of the header map
		// (documented representation difference): not compared
		cnt := func(h http.Header) int {
			n := 0
			for k := range h {
				if k != "Transfer-Encoding" && k != "Trailer" {
					n++
				}
			}
			return n
		}
		verifAssertD(cnt(got.header) == cnt(want.header), "header-multimap", "count")
		for k, wv := range want.header {
			if k == "Transfer-Encoding" || k == "Trailer" {
				continue
			}
			gv := got.header[k]
			verifAssertD(len(gv) == len(wv), "header-multimap", "values")
			for i := range wv {
				if i < len(gv) {
					verifAssertD(verifTrimOWS(gv[i]) == verifTrimOWS(wv[i]), "header-multimap", "value")
				}
			}
		}
	}
	verifAssertD(len(got.body) == len(want.body) && verifEqBytes(got.body, want.body), "body-bytes", "response")
	verifAssertD(len(want.body) == len(body), "reference-body", "net/http")
	if trailer {
		gt, wt := got.trailer["X-T"], want.trailer["X-T"]
		verifAssertD(len(wt) == 1 && wt[0] == "tv", "reference-trailer", "net/http")
		verifAssertD(len(gt) == 1 && gt[0] == "tv", "trailer", "response")
	}
	if next && len(seen) == 2 {
		verifReach("pipelined-successor")
		verifAssertD(seen[1].code == 299, "successor-parsed-from-message-boundary", "response")
	}
	// net/http: Status is "200 OK" (code, space, reason phrase)
	verifAssertD(len(got.status) == len(want.status) && verifEqString(got.status, want.status), "status-text", "response")
}

func verifHarness_C07_response_status_line() {
	verifC07Response(0)
	verifAssert(false, "witness")
}

func verifHarness_C07_response_content_length() {
	verifC07Response(1)
	verifAssert(false, "witness")
}

func verifHarness_C07_response_chunked() {
	verifC07Response(2)
	verifAssert(false, "witness")
}

// responses that never carry a body: 204 (no framing headers) and 304, which
// may announce the length of the representation it did NOT send (RFC 7230
// 3.3.2) — the message ends with its head, and the pipelined successor starts
// right there.
func verifHarness_C07_response_without_body_by_status() {
	var w []byte
	form := verifChoose("form", 3)
	wantCode := 204
	switch form {
	case 0:
		w = []byte("HTTP/1.1 204 No Content\r\nX-A: a\r\n\r\n")
	case 1:
		wantCode = 304
		w = []byte("HTTP/1.1 304 Not Modified\r\nEtag: \"e\"\r\n\r\n")
	case 2:
		wantCode = 304
		w = []byte("HTTP/1.1 304 Not Modified\r\nContent-Length: 5\r\nEtag: \"e\"\r\n\r\n")
	}
	body := verifBytes("next_body", 5)
	w = append(w, "HTTP/1.1 299 Next\r\nContent-Length: 5\r\n\r\n"...)
	w = append(w, body...)
	br := bufio.NewReader(bytes.NewReader(append([]byte(nil), w...)))
	ref, err := http.ReadResponse(br, nil)
	if err != nil {
		verifFail("reference-rejects-well-formed-response", "bodiless")
		return
	}
	first := verifSnapshotRes(ref)
	ref2, err := http.ReadResponse(br, nil)
	if err != nil {
		verifFail("reference-rejects-well-formed-response", "successor")
		return
	}
	second := verifSnapshotRes(ref2)
	verifAssertD(first.code == wantCode && len(first.body) == 0 && second.code == 299 && verifEqBytes(second.body, body), "reference-boundaries", "net/http")
	e := verifHTTPEngine()
	var seen []*verifSeenRes
	cc := &ClientConn{Engine: e}
	proc := NewClientProcessor(cc, func(res *http.Response, err error) {
		if res != nil {
			seen = append(seen, verifSnapshotRes(res))
		}
	})
	p := NewParser(&verifNetConn{failAt: -1}, e, proc, true, nil)
	perr := p.Parse(append([]byte(nil), w...))
	verifAssertD(perr == nil, "well-formed-message-accepted", "bodiless-response")
	verifAssertD(len(seen) == 2, "message-count", "bodiless-response")
	if len(seen) == 2 {
		verifAssertD(seen[0].code == wantCode && len(seen[0].body) == 0, "body-bytes", "bodiless-response")
		verifAssertD(seen[1].code == 299 && len(seen[1].body) == 5 && verifEqBytes(seen[1].body, body), "successor-parsed-from-message-boundary", "bodiless-response")
	}
	verifAssert(false, "witness")
}

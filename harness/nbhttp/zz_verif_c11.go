package nbhttp

import (
	"bytes"
	"net/http"

	"github.com/lesismal/nbio/mempool"
)

// C11 (HTTP part) — pooled-buffer ownership in the response writer: the C09
// handler programs run on a tracking allocator; every access to a freed buffer
// is trapped by the engine at the access itself.

func verifC11Response(cfg verifC09Cfg, sizes []int, name string) {
	tr := verifNewTracker()
	mempool.DefaultMemPool = tr
	verifC09Run(cfg, sizes, name)
	verifAssertD(tr.frees <= tr.mallocs+8, "frees-bounded-by-allocations", name)
}

func verifC11Sizes() []int {
	cls := []int{1, verifT - 60, verifT - 1, verifT, verifT + 1}
	return []int{cls[verifChoose("w1", 5)], []int{0, 1, verifT - 1, verifT + 1}[verifChoose("w2", 4)]}
}

func verifHarness_C11_response_chunked() {
	cfg := verifC09Cfg{shortHead: true, trailer: verifChoose("trailer", 2) == 1, flushMid: verifChoose("flush", 2) == 1, failAt: -1}
	verifC11Response(cfg, verifC11Sizes(), "chunked")
	verifAssert(false, "witness")
}

func verifHarness_C11_response_identity() {
	cfg := verifC09Cfg{shortHead: true, declareCL: verifChoose("declare_cl", 2) == 1, http10: verifChoose("http10", 2) == 1, flushMid: verifChoose("flush", 2) == 1, failAt: -1}
	verifAssume(!(cfg.flushMid && cfg.http10 && !cfg.declareCL))
	verifC11Response(cfg, verifC11Sizes(), "identity")
	verifAssert(false, "witness")
}

func verifHarness_C11_response_connection_error() {
	cfg := verifC09Cfg{shortHead: true, declareCL: verifChoose("declare_cl", 2) == 1, http10: verifChoose("http10", 2) == 1, failAt: verifChoose("fail_at", 4)}
	verifC11Response(cfg, verifC11Sizes(), "connection-error")
	verifAssert(false, "witness")
}

// ---- request bodies: BodyReader holds the body in pooled buffers, frees each
// one as it is read out, and frees the rest on Close.

func verifSmallTracker() *verifTrackAlloc {
	verifPoolMode(1)
	return &verifTrackAlloc{inner: mempool.New(4, 1<<20)}
}

// programs of append / Read / Close directly on a BodyReader, sizes the solver's
func verifHarness_C11_body_reader_ops() {
	verifBound("ops", 4)
	verifBound("append_max", 6)
	verifBound("read_max", 7)
	tr := verifSmallTracker()
	e := verifHTTPEngine()
	e.BodyAllocator = tr
	br := NewBodyReader(e)
	var appended, read []byte
	closed := false
	for s := 0; s < 4; s++ {
		switch verifChoose("op", 3) {
		case 0:
			n := verifConc(verifInt("append_len", 1, 6))
			data := verifBytes("d", n)
			if closed {
				continue // the parser never appends to a released body
			}
			err := br.append(append([]byte(nil), data...))
			verifAssertD(err == nil, "body-append-within-limit-succeeds", "")
			appended = append(appended, data...)
		case 1:
			m := verifConc(verifInt("read_len", 1, 7))
			buf := make([]byte, m)
			n, _ := br.Read(buf)
			if closed {
				verifAssertD(n == 0, "closed-body-reads-nothing", "")
				continue
			}
			read = append(read, buf[:n]...)
			want := len(appended) - (len(read) - n)
			if want > m {
				want = m
			}
			verifAssertD(n == want, "body-read-returns-what-is-buffered", "")
		case 2:
			_ = br.Close()
			closed = true
		}
		verifAssertD(len(read) <= len(appended) && verifEqBytes(read, appended[:len(read)]), "body-bytes-read-are-the-bytes-appended", "")
		if !closed {
			verifAssertD(br.Left() == len(appended)-len(read), "body-left-is-unread-count", "")
		}
	}
	_ = br.Close() // what releaseRequest does
	_ = br.Close()
	verifAssertD(tr.frees <= tr.mallocs, "frees-bounded-by-allocations", "body")
	verifAssert(false, "witness")
}

// the same buffers through the real server Parser: a POST body (Content-Length
// or chunked) arriving in two reads, a handler that reads none / some / all of
// it, then the next request, an over-long body, a framing error or a lost
// connection.
func verifHarness_C11_request_body_paths() {
	tr := verifSmallTracker()
	mempool.DefaultMemPool = tr
	e := verifHTTPEngine()
	e.BodyAllocator = tr
	e.MaxHTTPBodySize = 8
	readMode := verifChoose("handler_reads", 3)
	var seenBody []byte
	handled := 0
	e.Handler = http.HandlerFunc(func(w http.ResponseWriter, r *http.Request) {
		handled++
		switch readMode {
		case 1:
			b := make([]byte, 2)
			n, _ := r.Body.Read(b)
			seenBody = append(seenBody, b[:n]...)
		case 2:
			b := make([]byte, 3)
			for {
				n, err := r.Body.Read(b)
				seenBody = append(seenBody, b[:n]...)
				if err != nil || n == 0 {
					break
				}
			}
		}
		_, _ = w.Write([]byte("ok"))
	})
	conn := &verifNetConn{failAt: -1}
	p := NewParser(conn, e, NewServerProcessor(), false, nil)
	n := []int{1, 3, 6}[verifChoose("body_len", 3)]
	body := verifBytes("b", n)
	var w []byte
	form := verifChoose("form", 4)
	switch form {
	case 0: // Content-Length
		w = append(w, "POST / HTTP/1.1\r\nHost: h\r\nContent-Length: "...)
		w = append(w, byte('0'+n), '\r', '\n', '\r', '\n')
		w = append(w, body...)
	case 1: // chunked, two chunks
		k := n / 2
		w = append(w, "POST / HTTP/1.1\r\nHost: h\r\nTransfer-Encoding: chunked\r\n\r\n"...)
		if k > 0 {
			w = append(w, byte('0'+k), '\r', '\n')
			w = append(w, body[:k]...)
			w = append(w, '\r', '\n')
		}
		w = append(w, byte('0'+n-k), '\r', '\n')
		w = append(w, body[k:]...)
		w = append(w, "\r\n0\r\n\r\n"...)
	case 2: // over the body limit (9 > 8), announced by Content-Length
		w = append(w, "POST / HTTP/1.1\r\nHost: h\r\nContent-Length: 9\r\n\r\n"...)
		w = append(w, body...)
		w = append(w, "123456789"[:9-n]...)
	case 3: // chunked, second chunk size malformed
		w = append(w, "POST / HTTP/1.1\r\nHost: h\r\nTransfer-Encoding: chunked\r\n\r\n"...)
		w = append(w, byte('0'+n), '\r', '\n')
		w = append(w, body...)
		w = append(w, "\r\nZ\r\n"...)
	}
	if form <= 1 && verifChoose("successor", 2) == 1 {
		w = append(w, "GET /n HTTP/1.1\r\nHost: h\r\n\r\n"...)
	}
	// the cut falls early in the head (a cached partial header) or anywhere from
	// the end of the head on (bodies, chunk framing, the successor)
	hdrEnd := bytes.Index(w, []byte("\r\n\r\n")) + 4
	cut := 7
	if verifChoose("cut_in_body", 2) == 1 {
		cut = verifConc(verifInt("cut", hdrEnd-2, len(w)))
	}
	a := append([]byte(nil), w[:cut]...)
	err := p.Parse(a)
	for i := range a {
		a[i] = 0xEE
	}
	lost := verifChoose("connection_lost_after_first_read", 2) == 1
	if err == nil && !lost && cut < len(w) {
		b := append([]byte(nil), w[cut:]...)
		err = p.Parse(b)
		for i := range b {
			b[i] = 0xEE
		}
	}
	if form <= 1 && !lost {
		verifAssertD(err == nil, "well-formed-request-accepted", "body")
		if readMode == 2 && handled >= 1 {
			verifReach("body-read-by-handler")
			verifAssertD(verifEqBytes(seenBody, body), "handler-reads-the-body-bytes", "")
		}
	}
	// the engine closes the connection on a parse error or a lost connection
	p.CloseAndClean(err)
	p.CloseAndClean(err)
	verifAssertD(tr.frees <= tr.mallocs, "frees-bounded-by-allocations", "request")
	verifAssert(false, "witness")
}

// the parser's own cache of an unfinished token (bytesCached, a pooled
// buffer): a request arriving in three reads, so that a read both consumes a
// prefix of the cache and leaves a new remainder behind.
func verifHarness_C11_parser_cache_three_reads() {
	verifBound("reads", 3)
	tr := verifSmallTracker()
	mempool.DefaultMemPool = tr
	e := verifHTTPEngine()
	e.BodyAllocator = tr
	var host, path string
	e.Handler = http.HandlerFunc(func(w http.ResponseWriter, r *http.Request) {
		host, path = r.Host, r.URL.Path
	})
	conn := &verifNetConn{failAt: -1}
	p := NewParser(conn, e, NewServerProcessor(), false, nil)
	w := []byte("GET /ab HTTP/1.1\r\nHost: ex.org\r\nX: y\r\n\r\n")
	c1 := verifConc(verifInt("cut1", 1, len(w)-2))
	c2 := verifConc(verifInt("cut2", c1+1, len(w)-1))
	// the connection may be closed between two reads while a read that was
	// already in flight still reaches Parse afterwards
	closeAfter := verifChoose("closed_after_reads", 3) // 0: not closed
	var err error
	for i, piece := range [][]byte{w[:c1], w[c1:c2], w[c2:]} {
		b := append([]byte(nil), piece...)
		if err == nil || closeAfter > 0 {
			err = p.Parse(b)
		}
		for i := range b {
			b[i] = 0xEE // the read buffer is reused by the poller
		}
		if closeAfter == i+1 {
			p.CloseAndClean(nil)
		}
	}
	if closeAfter == 0 {
		verifAssertD(err == nil, "well-formed-request-accepted", "three-reads")
		verifAssertD(host == "ex.org" && path == "/ab", "request-parsed-from-cached-pieces", "")
	} else {
		verifReach("late-read-after-close")
	}
	p.CloseAndClean(nil)
	verifAssertD(tr.frees <= tr.mallocs, "frees-bounded-by-allocations", "parser-cache")
	verifAssert(false, "witness")
}

package nbhttp

import "github.com/lesismal/nbio/mempool"

// C11 (HTTP part) — pooled-buffer ownership in the response writer: the C09
// handler programs run on a tracking allocator; every access to a freed buffer
// is trapped by the engine at the access itself.

func verifC11Response(cfg verifC09Cfg, sizes []int, name string) {
	tr := verifNewTracker()
	mempool.DefaultMemPool = tr
	verifC09Run(cfg, sizes, name)
	verifAssertD(tr.frees <= tr.mallocs+8, "frees-bounded-by-allocations", name)
}

func verifC11Sizes() []int {
	cls := []int{1, verifT - 60, verifT - 1, verifT, verifT + 1}
	return []int{cls[verifChoose("w1", 5)], []int{0, 1, verifT - 1, verifT + 1}[verifChoose("w2", 4)]}
}

func verifHarness_C11_response_chunked() {
	cfg := verifC09Cfg{shortHead: true, trailer: verifChoose("trailer", 2) == 1, flushMid: verifChoose("flush", 2) == 1, failAt: -1}
	verifC11Response(cfg, verifC11Sizes(), "chunked")
	verifAssert(false, "witness")
}

func verifHarness_C11_response_identity() {
	cfg := verifC09Cfg{shortHead: true, declareCL: verifChoose("declare_cl", 2) == 1, http10: verifChoose("http10", 2) == 1, flushMid: verifChoose("flush", 2) == 1, failAt: -1}
	verifAssume(!(cfg.flushMid && cfg.http10 && !cfg.declareCL))
	verifC11Response(cfg, verifC11Sizes(), "identity")
	verifAssert(false, "witness")
}

func verifHarness_C11_response_connection_error() {
	cfg := verifC09Cfg{shortHead: true, declareCL: verifChoose("declare_cl", 2) == 1, http10: verifChoose("http10", 2) == 1, failAt: verifChoose("fail_at", 4)}
	verifC11Response(cfg, verifC11Sizes(), "connection-error")
	verifAssert(false, "witness")
}

package nbhttp

import "errors"

// C06 — parsing is independent of segmentation. Parser A reads the whole
// stream, parser B reads it in pieces (fresh buffers overwritten with junk
// after each call); a recording Processor logs every callback.

type verifEvent struct {
	kind   int
	s1, s2 string
	n      int
	body   []byte
}

const (
	evMethod = iota + 1
	evURL
	evProto
	evStatus
	evHeader
	evContentLength
	evBody
	evTrailer
	evComplete
)

type verifRecorder struct {
	log       []verifEvent
	completed int
}

func (r *verifRecorder) OnMethod(p *Parser, m string) { r.log = append(r.log, verifEvent{kind: evMethod, s1: m}) }
func (r *verifRecorder) OnURL(p *Parser, u string) error {
	r.log = append(r.log, verifEvent{kind: evURL, s1: u})
	return nil
}
func (r *verifRecorder) OnProto(p *Parser, s string) error {
	r.log = append(r.log, verifEvent{kind: evProto, s1: s})
	return nil
}
func (r *verifRecorder) OnStatus(p *Parser, code int, s string) {
	r.log = append(r.log, verifEvent{kind: evStatus, s1: s, n: code})
}
func (r *verifRecorder) OnHeader(p *Parser, k, v string) {
	r.log = append(r.log, verifEvent{kind: evHeader, s1: k, s2: v})
}
func (r *verifRecorder) OnContentLength(p *Parser, n int) {
	r.log = append(r.log, verifEvent{kind: evContentLength, n: n})
}
func (r *verifRecorder) OnBody(p *Parser, b []byte) error {
	cp := make([]byte, len(b))
	copy(cp, b)
	r.log = append(r.log, verifEvent{kind: evBody, body: cp})
	return nil
}
func (r *verifRecorder) OnTrailerHeader(p *Parser, k, v string) {
	r.log = append(r.log, verifEvent{kind: evTrailer, s1: k, s2: v})
}
func (r *verifRecorder) OnComplete(p *Parser) {
	r.completed++
	r.log = append(r.log, verifEvent{kind: evComplete})
}
func (r *verifRecorder) Close(p *Parser, err error) {}
func (r *verifRecorder) Clean(p *Parser)            {}

// verifFeed runs a fresh parser over the pieces; every piece is handed over in
// its own buffer which is overwritten afterwards.
func verifFeed(client bool, e *Engine, pieces ...[]byte) (*verifRecorder, error, *Parser) {
	rec := &verifRecorder{}
	p := NewParser(&verifNetConn{failAt: -1}, e, rec, client, nil)
	for _, pc := range pieces {
		if len(pc) == 0 {
			continue
		}
		buf := make([]byte, len(pc))
		copy(buf, pc)
		panics0 := verifPanicCount()
		err := p.Parse(buf)
		verifAssertD(verifPanicCount() == panics0, "no-panic-inside-parse", "feed")
		for i := range buf {
			buf[i] = 0xEE
		}
		if err != nil {
			return rec, err, p
		}
	}
	return rec, nil, p
}

// body bytes of consecutive OnBody events are concatenated: a parser may
// deliver one chunk in one or several calls only if the property says so — it
// does not, so bodies are compared event by event.
func verifSameEvents(a, b *verifRecorder, name string) {
	verifAssertD(len(a.log) == len(b.log), "same-number-of-events", name)
	if len(a.log) != len(b.log) {
		return
	}
	for i := range a.log {
		x, y := a.log[i], b.log[i]
		verifAssertD(x.kind == y.kind, "same-event-kinds", name)
		if x.kind != y.kind {
			return
		}
		verifAssertD(x.n == y.n, "same-numbers", name)
		verifAssertD(len(x.s1) == len(y.s1) && len(x.s2) == len(y.s2), "same-string-lengths", name)
		if len(x.s1) == len(y.s1) && len(x.s2) == len(y.s2) {
			verifAssertD(verifEqString(x.s1, y.s1) && verifEqString(x.s2, y.s2), "same-strings", name)
		}
		verifAssertD(len(x.body) == len(y.body), "same-body-lengths", name)
		if len(x.body) == len(y.body) {
			verifAssertD(verifEqBytes(x.body, y.body), "same-body-bytes", name)
		}
	}
}

func verifSameError(ea, eb error, name string) {
	verifAssertD((ea == nil) == (eb == nil), "same-accept-or-reject", name)
	if ea != nil && eb != nil {
		// sentinel errors must agree; wrapped/formatted errors are compared by sentinel
		for _, s := range []error{ErrInvalidMethod, ErrInvalidRequestURI, ErrInvalidCharInHeader, ErrLFExpected, ErrCRExpected, ErrInvalidChunkSize, ErrTrailerExpected, ErrUnexpectedContentLength, ErrInvalidContentLength, ErrInvalidHTTPStatusCode, ErrInvalidHTTPStatus, ErrTooLong} {
			verifAssertD(errors.Is(ea, s) == errors.Is(eb, s), "same-rejection-error", name)
		}
	}
}

type verifTemplate struct {
	name      string
	client    bool
	pre, post string
}

var verifC06Templates = []verifTemplate{
	{"method", false, "", " / HTTP/1.1\r\n\r\n"},
	{"path", false, "GET ", " HTTP/1.1\r\n\r\n"},
	{"proto", false, "GET / ", "\r\n\r\n"},
	{"request-line-end", false, "GET / HTTP/1.1", "Host: a\r\n\r\n"},
	{"header-key", false, "GET / HTTP/1.1\r\n", ": v\r\n\r\n"},
	{"header-value", false, "GET / HTTP/1.1\r\nK:", "\r\n\r\n"},
	{"header-line-end", false, "GET / HTTP/1.1\r\nK: v", "\r\n"},
	{"content-length-value", false, "POST / HTTP/1.1\r\nContent-Length: ", "\r\n\r\nabcdefgh"},
	{"body-then-pipelined", false, "POST / HTTP/1.1\r\nContent-Length: 3\r\n\r\n", "GET /b HTTP/1.1\r\n\r\n"},
	{"transfer-encoding-value", false, "POST / HTTP/1.1\r\nTransfer-Encoding: ", "\r\n\r\n0\r\n\r\n"},
	{"chunk-size", false, "POST / HTTP/1.1\r\nTransfer-Encoding: chunked\r\n\r\n", "\r\nabc\r\n0\r\n\r\n"},
	{"chunk-ext", false, "POST / HTTP/1.1\r\nTransfer-Encoding: chunked\r\n\r\n3", "abc\r\n0\r\n\r\n"},
	{"chunk-data-end", false, "POST / HTTP/1.1\r\nTransfer-Encoding: chunked\r\n\r\n2\r\nab", "0\r\n\r\n"},
	{"last-chunk-end", false, "POST / HTTP/1.1\r\nTransfer-Encoding: chunked\r\n\r\n0", "GET / HTTP/1.1\r\n\r\n"},
	{"trailer-declaration", false, "POST / HTTP/1.1\r\nTransfer-Encoding: chunked\r\nTrailer: ", "\r\n\r\n0\r\nX: v\r\n\r\n"},
	{"trailer-key", false, "POST / HTTP/1.1\r\nTransfer-Encoding: chunked\r\nTrailer: X\r\n\r\n0\r\n", ": v\r\n\r\n"},
	{"trailer-value", false, "POST / HTTP/1.1\r\nTransfer-Encoding: chunked\r\nTrailer: X\r\n\r\n0\r\nX:", "\r\n\r\n"},
	{"client-proto", true, "", " 200 OK\r\nContent-Length: 0\r\n\r\n"},
	{"client-status-code", true, "HTTP/1.1 ", " OK\r\nContent-Length: 0\r\n\r\n"},
	{"client-status-text", true, "HTTP/1.1 200 ", "\r\nContent-Length: 2\r\n\r\nab"},
}

func verifC06Run(t verifTemplate, W int, cuts int) {
	e := verifHTTPEngine()
	stream := append([]byte(t.pre), verifBytes("w", W)...)
	stream = append(stream, t.post...)
	a, ea, _ := verifFeed(t.client, e, stream)
	var pieces [][]byte
	rest := stream
	for k := 0; k < cuts && len(rest) > 1; k++ {
		cut := verifConc(verifInt("cut", 1, len(rest)-1))
		pieces = append(pieces, rest[:cut])
		rest = rest[cut:]
	}
	pieces = append(pieces, rest)
	b, eb, pb := verifFeed(t.client, e, pieces...)
	verifSameError(ea, eb, t.name)
	verifSameEvents(a, b, t.name)
	if ea == nil {
		if a.completed > 0 {
			verifReach("message-completed")
		}
		_ = pb
	} else {
		verifReach("rejected")
	}
}

func verifC06Harness(i int, W, cuts int) {
	verifBound("window_bytes", W)
	verifBound("cuts", cuts)
	verifC06Run(verifC06Templates[i], W, cuts)
	verifAssert(false, "witness")
}

func verifHarness_C06_t00_method_Q() { verifC06Harness(0, 3, 1) }
func verifHarness_C06_t00_method_T() { verifC06Harness(0, 4, 1) }
func verifHarness_C06_t00_method_two_cuts_T() { verifC06Harness(0, 2, 2) }
func verifHarness_C06_t01_path_Q() { verifC06Harness(1, 3, 1) }
func verifHarness_C06_t01_path_T() { verifC06Harness(1, 4, 1) }
func verifHarness_C06_t01_path_two_cuts_T() { verifC06Harness(1, 2, 2) }
func verifHarness_C06_t02_proto_Q() { verifC06Harness(2, 3, 1) }
func verifHarness_C06_t02_proto_T() { verifC06Harness(2, 4, 1) }
func verifHarness_C06_t02_proto_two_cuts_T() { verifC06Harness(2, 2, 2) }
func verifHarness_C06_t03_request_line_end_Q() { verifC06Harness(3, 3, 1) }
func verifHarness_C06_t03_request_line_end_T() { verifC06Harness(3, 4, 1) }
func verifHarness_C06_t03_request_line_end_two_cuts_T() { verifC06Harness(3, 2, 2) }
func verifHarness_C06_t04_header_key_Q() { verifC06Harness(4, 3, 1) }
func verifHarness_C06_t04_header_key_T() { verifC06Harness(4, 4, 1) }
func verifHarness_C06_t04_header_key_two_cuts_T() { verifC06Harness(4, 2, 2) }
func verifHarness_C06_t05_header_value_Q() { verifC06Harness(5, 3, 1) }
func verifHarness_C06_t05_header_value_T() { verifC06Harness(5, 4, 1) }
func verifHarness_C06_t05_header_value_two_cuts_T() { verifC06Harness(5, 2, 2) }
func verifHarness_C06_t06_header_line_end_Q() { verifC06Harness(6, 3, 1) }
func verifHarness_C06_t06_header_line_end_T() { verifC06Harness(6, 4, 1) }
func verifHarness_C06_t06_header_line_end_two_cuts_T() { verifC06Harness(6, 2, 2) }
func verifHarness_C06_t07_content_length_value_Q() { verifC06Harness(7, 2, 1) }
func verifHarness_C06_t07_content_length_value_T() { verifC06Harness(7, 3, 1) }
func verifHarness_C06_t07_content_length_value_two_cuts_T() { verifC06Harness(7, 1, 2) }
func verifHarness_C06_t08_body_then_pipelined_Q() { verifC06Harness(8, 3, 1) }
func verifHarness_C06_t08_body_then_pipelined_T() { verifC06Harness(8, 4, 1) }
func verifHarness_C06_t08_body_then_pipelined_two_cuts_T() { verifC06Harness(8, 2, 2) }
func verifHarness_C06_t09_transfer_encoding_value_Q() { verifC06Harness(9, 2, 1) }
func verifHarness_C06_t09_transfer_encoding_value_T() { verifC06Harness(9, 2, 1) }
func verifHarness_C06_t09_transfer_encoding_value_two_cuts_T() { verifC06Harness(9, 1, 2) }
func verifHarness_C06_t10_chunk_size_Q() { verifC06Harness(10, 2, 1) }
func verifHarness_C06_t10_chunk_size_T() { verifC06Harness(10, 3, 1) }
func verifHarness_C06_t10_chunk_size_two_cuts_T() { verifC06Harness(10, 1, 2) }
func verifHarness_C06_t11_chunk_ext_Q() { verifC06Harness(11, 3, 1) }
func verifHarness_C06_t11_chunk_ext_T() { verifC06Harness(11, 4, 1) }
func verifHarness_C06_t11_chunk_ext_two_cuts_T() { verifC06Harness(11, 2, 2) }
func verifHarness_C06_t12_chunk_data_end_Q() { verifC06Harness(12, 3, 1) }
func verifHarness_C06_t12_chunk_data_end_T() { verifC06Harness(12, 4, 1) }
func verifHarness_C06_t12_chunk_data_end_two_cuts_T() { verifC06Harness(12, 2, 2) }
func verifHarness_C06_t13_last_chunk_end_Q() { verifC06Harness(13, 2, 1) }
func verifHarness_C06_t13_last_chunk_end_T() { verifC06Harness(13, 3, 1) }
func verifHarness_C06_t13_last_chunk_end_two_cuts_T() { verifC06Harness(13, 2, 2) }
func verifHarness_C06_t14_trailer_declaration_Q() { verifC06Harness(14, 2, 1) }
func verifHarness_C06_t14_trailer_declaration_T() { verifC06Harness(14, 3, 1) }
func verifHarness_C06_t14_trailer_declaration_two_cuts_T() { verifC06Harness(14, 2, 2) }
func verifHarness_C06_t15_trailer_key_Q() { verifC06Harness(15, 2, 1) }
func verifHarness_C06_t15_trailer_key_T() { verifC06Harness(15, 3, 1) }
func verifHarness_C06_t15_trailer_key_two_cuts_T() { verifC06Harness(15, 2, 2) }
func verifHarness_C06_t16_trailer_value_Q() { verifC06Harness(16, 3, 1) }
func verifHarness_C06_t16_trailer_value_T() { verifC06Harness(16, 4, 1) }
func verifHarness_C06_t16_trailer_value_two_cuts_T() { verifC06Harness(16, 2, 2) }
func verifHarness_C06_t17_client_proto_Q() { verifC06Harness(17, 3, 1) }
func verifHarness_C06_t17_client_proto_T() { verifC06Harness(17, 4, 1) }
func verifHarness_C06_t17_client_proto_two_cuts_T() { verifC06Harness(17, 2, 2) }
func verifHarness_C06_t18_client_status_code_Q() { verifC06Harness(18, 3, 1) }
func verifHarness_C06_t18_client_status_code_T() { verifC06Harness(18, 4, 1) }
func verifHarness_C06_t18_client_status_code_two_cuts_T() { verifC06Harness(18, 2, 2) }
func verifHarness_C06_t19_client_status_text_Q() { verifC06Harness(19, 3, 1) }
func verifHarness_C06_t19_client_status_text_T() { verifC06Harness(19, 4, 1) }
func verifHarness_C06_t19_client_status_text_two_cuts_T() { verifC06Harness(19, 2, 2) }

package nbhttp

import (
	"bufio"
	"bytes"
	"io"
	"net/http"
	"os"
	"strconv"
)

// C09 — response framing. maxPacketSize is scaled to verifT by an overlay copy
// of response.go; write sizes sweep 1..T+4 (first write) and the boundary
// classes (second write), body bytes are symbolic.

const verifT = 128

type verifC09Cfg struct {
	http10      bool
	declareCL   bool
	explicitTE  bool
	trailer     bool
	shortHead   bool // preset short Date / Content-Type so that head < T
	writeString bool
	flushMid    bool
	failAt      int
}

func verifC09Run(cfg verifC09Cfg, sizes []int, name string) {
	conn := &verifNetConn{failAt: cfg.failAt}
	e := verifHTTPEngine()
	p := verifServerParser(conn, e, nil)
	req := &http.Request{Method: "GET", Proto: "HTTP/1.1", ProtoMajor: 1, ProtoMinor: 1, Header: http.Header{}}
	if cfg.http10 {
		req.Proto, req.ProtoMinor = "HTTP/1.0", 0
	}
	res := NewResponse(p, req)
	reqProto := req.Proto
	total := 0
	for _, n := range sizes {
		total += n
	}
	if cfg.shortHead {
		res.Header().Set("Date", "x")
		res.Header().Set("Content-Type", "t")
	}
	if cfg.declareCL {
		res.Header().Set("Content-Length", strconv.Itoa(total))
	}
	if cfg.explicitTE {
		res.Header().Set("Transfer-Encoding", "chunked")
	}
	if cfg.trailer {
		res.Header().Set("Trailer", "X-T")
		res.Header().Set("X-T", "tv")
	}
	res.Header().Set("X-A", "av")
	var body []byte
	writeErr := false
	for i, n := range sizes {
		if n == 0 {
			continue
		}
		data := verifBytes("body", n)
		body = append(body, data...)
		var got int
		var err error
		if cfg.writeString {
			got, err = res.WriteString(string(data))
		} else {
			got, err = res.Write(data)
		}
		if err == nil {
			verifAssertD(got == n, "successful-write-reports-its-size", name)
		} else {
			writeErr = true
			verifAssertD(cfg.failAt >= 0, "write-fails-only-when-connection-fails", name)
		}
		if cfg.flushMid && i == 0 {
			res.Flush()
		}
	}
	(&ServerProcessor{}).flushResponse(p, res)
	if cfg.failAt >= 0 || writeErr {
		verifReach("connection-error")
		return // the response is cut short by the failing connection; framing cannot be demanded
	}
	w := conn.wire()
	d := verifDecodeResponse(w)
	verifAssertD(d.ok, "wire-decodes-as-one-response", name)
	if !d.ok {
		verifNote("decode failed: " + d.why)
		return
	}
	verifReach("decoded")
	verifAssertD(d.consumed == len(w), "nothing-after-the-response", name)
	verifAssertD(d.code == 200 && d.status == "OK", "status", name)
	verifAssertD(d.proto == reqProto, "response-version-matches-request", name)
	verifAssertD(len(d.body) == len(body), "body-length", name)
	if len(d.body) == len(body) {
		verifAssertD(verifEqBytes(d.body, body), "body-is-concatenation-of-writes", name)
	}
	v, n := d.get("X-A")
	verifAssertD(n == 1 && v == "av", "handler-header-present", name)
	// framing consistent with version and headers
	verifAssertD(!(d.chunked && d.hasCL), "not-both-content-length-and-chunked", name)
	if cfg.http10 && !cfg.explicitTE && !cfg.trailer {
		verifAssertD(!d.chunked, "no-chunked-on-http10", name)
	}
	if !d.chunked {
		verifAssertD(d.hasCL && d.cl == len(body), "content-length-equals-body", name)
	}
	if cfg.trailer {
		ok := len(d.trailers) == 1 && d.trailers[0].k == "X-T" && d.trailers[0].v == "tv"
		verifAssertD(ok, "declared-trailer-delivered", name)
	} else {
		verifAssertD(len(d.trailers) == 0, "no-undeclared-trailers", name)
	}
	// a second, fully independent client: the real net/http.ReadResponse
	// (interpreted). It ignores Transfer-Encoding in HTTP/1.0 messages, so
	// chunked HTTP/1.0 answers (explicitly requested by the handler) are skipped.
	if cfg.http10 && d.chunked {
		return
	}
	br := bufio.NewReader(bytes.NewReader(append([]byte(nil), w...)))
	hr, err := http.ReadResponse(br, req)
	verifAssertD(err == nil, "net/http-decodes-the-response", name)
	if err != nil {
		return
	}
	s := verifSnapshotRes(hr)
	verifAssertD(s.code == 200, "net/http-status", name)
	verifAssertD(len(s.body) == len(body) && verifEqBytes(s.body, body), "net/http-body-is-concatenation-of-writes", name)
	verifAssertD(len(s.header["X-A"]) == 1 && s.header["X-A"][0] == "av", "net/http-handler-header-present", name)
	if cfg.trailer {
		verifAssertD(len(s.trailer["X-T"]) == 1 && s.trailer["X-T"][0] == "tv", "net/http-declared-trailer-delivered", name)
	}
	_, perr := br.Peek(1)
	verifAssertD(perr == io.EOF, "net/http-nothing-after-the-response", name)
	verifReach("decoded-by-net/http")
}

func verifC09Sizes(firstMax int) []int {
	first := verifConc(verifInt("w1", 1, firstMax))
	second := []int{0, 1, 2, verifT - 1, verifT, verifT + 1}[verifChoose("w2", 6)]
	return []int{first, second}
}

func verifHarness_C09_chunked_default() {
	verifBound("T_scaled_maxPacketSize", verifT)
	verifBound("write1_max", verifT+4)
	cfg := verifC09Cfg{shortHead: verifChoose("short_head", 2) == 1, failAt: -1}
	verifC09Run(cfg, verifC09Sizes(verifT+4), "chunked-default")
	verifAssert(false, "witness")
}

func verifHarness_C09_content_length_declared() {
	cfg := verifC09Cfg{declareCL: true, shortHead: verifChoose("short_head", 2) == 1, http10: verifChoose("http10", 2) == 1, failAt: -1}
	verifC09Run(cfg, verifC09Sizes(verifT+4), "content-length-declared")
	verifAssert(false, "witness")
}

func verifHarness_C09_http10_buffered() {
	cfg := verifC09Cfg{http10: true, shortHead: true, failAt: -1}
	verifC09Run(cfg, verifC09Sizes(verifT+4), "http10-no-content-length")
	verifAssert(false, "witness")
}

func verifHarness_C09_chunked_trailer() {
	cfg := verifC09Cfg{trailer: true, explicitTE: verifChoose("explicit_te", 2) == 1, shortHead: true, http10: verifChoose("http10", 2) == 1, failAt: -1}
	verifC09Run(cfg, verifC09Sizes(verifT+4), "chunked-trailer")
	verifAssert(false, "witness")
}

func verifHarness_C09_writestring_and_flush() {
	cfg := verifC09Cfg{writeString: verifChoose("write_string", 2) == 1, flushMid: verifChoose("flush", 2) == 1, declareCL: verifChoose("declare_cl", 2) == 1, shortHead: true, failAt: -1}
	verifAssume(cfg.writeString || cfg.flushMid)
	first := []int{1, 2, verifT - 60, verifT - 1, verifT, verifT + 1}[verifChoose("w1", 6)]
	second := []int{0, 1, verifT - 1, verifT, verifT + 1}[verifChoose("w2", 5)]
	verifC09Run(cfg, []int{first, second}, "writestring-flush")
	verifAssert(false, "witness")
}

func verifHarness_C09_three_writes_T() {
	cfg := verifC09Cfg{declareCL: verifChoose("declare_cl", 2) == 1, shortHead: true, failAt: -1}
	cls := []int{1, verifT / 2, verifT - 46, verifT - 1, verifT, verifT + 1}
	sizes := []int{cls[verifChoose("w1", 6)], cls[verifChoose("w2", 6)], cls[verifChoose("w3", 6)]}
	verifC09Run(cfg, sizes, "three-writes")
	verifAssert(false, "witness")
}

func verifHarness_C09_connection_error() {
	cfg := verifC09Cfg{declareCL: verifChoose("declare_cl", 2) == 1, shortHead: true, failAt: verifChoose("fail_at", 3)}
	first := []int{1, verifT - 1, verifT + 1}[verifChoose("w1", 3)]
	second := []int{1, verifT + 1}[verifChoose("w2", 2)]
	verifC09Run(cfg, []int{first, second}, "connection-error")
	verifAssert(false, "witness")
}

// status codes: whatever code the handler passes to WriteHeader is the code a
// client decodes (both decoders), including codes net/http has no text for.
func verifHarness_C09_status_codes() {
	code := []int{201, 404, 500, 299, 599, 418}[verifChoose("status", 6)]
	conn := &verifNetConn{failAt: -1}
	e := verifHTTPEngine()
	p := verifServerParser(conn, e, nil)
	req := &http.Request{Method: "GET", Proto: "HTTP/1.1", ProtoMajor: 1, ProtoMinor: 1, Header: http.Header{}}
	res := NewResponse(p, req)
	res.Header().Set("Date", "x")
	res.WriteHeader(code)
	n := verifChoose("body_len", 3)
	body := verifBytes("body", n)
	if n > 0 {
		got, err := res.Write(body)
		verifAssertD(err == nil && got == n, "successful-write-reports-its-size", "status-codes")
	}
	(&ServerProcessor{}).flushResponse(p, res)
	w := conn.wire()
	d := verifDecodeResponse(w)
	verifAssertD(d.ok && d.consumed == len(w), "wire-decodes-as-one-response", "status-codes")
	if d.ok {
		verifAssertD(d.code == code, "status", "handler-code")
		verifAssertD(len(d.body) == n && verifEqBytes(d.body, body), "body-is-concatenation-of-writes", "status-codes")
	}
	br := bufio.NewReader(bytes.NewReader(append([]byte(nil), w...)))
	hr, err := http.ReadResponse(br, req)
	verifAssertD(err == nil, "net/http-decodes-the-response", "status-codes")
	if err == nil {
		verifAssertD(hr.StatusCode == code, "net/http-status", "handler-code")
	}
	verifAssert(false, "witness")
}

// ReadFrom (what io.Copy(w, r) uses): with or without a preceding WriteHeader
// and Content-Length, after or without an ordinary Write.
func verifHarness_C09_readfrom() {
	conn := &verifNetConn{failAt: -1}
	e := verifHTTPEngine()
	p := verifServerParser(conn, e, nil)
	req := &http.Request{Method: "GET", Proto: "HTTP/1.1", ProtoMajor: 1, ProtoMinor: 1, Header: http.Header{}}
	res := NewResponse(p, req)
	res.Header().Set("Date", "x")
	res.Header().Set("Content-Type", "t")
	n := 1 + verifChoose("body_len", 4)
	data := verifBytes("file", n)
	declareCL := verifChoose("declare_cl", 2) == 1
	writeHeader := verifChoose("write_header", 2) == 1
	before := verifChoose("before_readfrom", 3) // nothing / a Write / a Write and a Flush
	var pre []byte
	if before > 0 {
		pre = verifBytes("pre", 2)
	}
	name := "bare"
	if declareCL {
		res.Header().Set("Content-Length", strconv.Itoa(n+len(pre)))
		name = "content-length"
	}
	if writeHeader {
		res.WriteHeader(200)
		name += "+writeheader"
	}
	if before > 0 {
		k, err := res.Write(append([]byte(nil), pre...))
		verifAssertD(err == nil && k == 2, "successful-write-reports-its-size", "before-readfrom")
		name += "+write"
		if before == 2 {
			res.Flush()
			name += "+flush"
		}
	}
	got, err := res.ReadFrom(bytes.NewReader(data))
	verifAssertD(err == nil && got == int64(n), "successful-write-reports-its-size", "readfrom:"+name)
	data = append(append([]byte(nil), pre...), data...)
	n = len(data)
	(&ServerProcessor{}).flushResponse(p, res)
	w := conn.wire()
	d := verifDecodeResponse(w)
	verifAssertD(d.ok, "wire-decodes-as-one-response", "readfrom:"+name)
	if d.ok {
		verifAssertD(d.consumed == len(w), "nothing-after-the-response", "readfrom:"+name)
		verifAssertD(d.code == 200, "status", "readfrom:"+name)
		verifAssertD(len(d.body) == n && verifEqBytes(d.body, data), "body-is-concatenation-of-writes", "readfrom:"+name)
	}
	verifAssert(false, "witness")
}

// two responses in a row on one connection: Response objects are pooled, so
// the second answer is built in the object the first one used (sync.Pool may
// also hand out a fresh one); nothing of the first — status, headers, trailer,
// chunked flag, buffers — may leak into the second.
func verifHarness_C09_second_response_in_pooled_object() {
	verifPoolMode(1)
	conn := &verifNetConn{failAt: -1}
	e := verifHTTPEngine()
	p := verifServerParser(conn, e, nil)
	type shape struct {
		http10, declareCL, trailer, flush bool
		code                              int
		n                                 int
	}
	pick := func(tag string) shape {
		s := shape{code: []int{200, 404}[verifChoose(tag+"_status", 2)], n: verifChoose(tag+"_len", 3)}
		switch verifChoose(tag+"_shape", 4) {
		case 0: // chunked with trailer
			s.trailer = true
		case 1: // declared length
			s.declareCL = true
		case 2: // HTTP/1.0, buffered
			s.http10 = true
		case 3: // chunked, flushed in the middle
			s.flush = true
		}
		return s
	}
	shapes := []shape{pick("first"), pick("second")}
	var bodies [][]byte
	for i, s := range shapes {
		req := &http.Request{Method: "GET", Proto: "HTTP/1.1", ProtoMajor: 1, ProtoMinor: 1, Header: http.Header{}}
		if s.http10 {
			req.Proto, req.ProtoMinor = "HTTP/1.0", 0
		}
		res := NewResponse(p, req)
		res.Header().Set("Date", "x")
		res.Header().Set("Content-Type", "t")
		res.Header().Set("X-N", string(rune('1'+i)))
		if s.declareCL {
			res.Header().Set("Content-Length", strconv.Itoa(s.n))
		}
		if s.trailer {
			res.Header().Set("Trailer", "X-T")
			res.Header().Set("X-T", "tv")
		}
		res.WriteHeader(s.code)
		body := verifBytes("body", s.n)
		bodies = append(bodies, body)
		if s.n > 0 {
			_, _ = res.Write(append([]byte(nil), body...))
		}
		if s.flush {
			res.Flush()
		}
		(&ServerProcessor{}).flushResponse(p, res)
	}
	w := conn.wire()
	pos := 0
	for i, s := range shapes {
		d := verifDecodeResponse(w[pos:])
		verifAssertD(d.ok, "wire-decodes-as-one-response", "second-in-pooled-object")
		if !d.ok {
			return
		}
		pos += d.consumed
		verifAssertD(d.code == s.code, "status", "pooled-object")
		verifAssertD(len(d.body) == s.n && verifEqBytes(d.body, bodies[i]), "body-is-concatenation-of-writes", "pooled-object")
		v, n := d.get("X-N")
		verifAssertD(n == 1 && v == string(rune('1'+i)), "handler-header-present", "pooled-object")
		if s.trailer {
			verifAssertD(len(d.trailers) == 1 && d.trailers[0].k == "X-T" && d.trailers[0].v == "tv", "declared-trailer-delivered", "pooled-object")
		} else {
			verifAssertD(len(d.trailers) == 0, "no-undeclared-trailers", "pooled-object")
			_, nt := d.get("Trailer")
			verifAssertD(nt == 0, "no-undeclared-trailers", "header")
		}
		if s.declareCL || s.http10 {
			verifAssertD(!d.chunked, "framing-follows-this-response", "pooled-object")
		}
	}
	verifAssertD(pos == len(w), "nothing-after-the-response", "pooled-object")
	verifAssert(false, "witness")
}

// the usual net/http order for trailers: declared before the body, VALUE set
// after the body has been written (and possibly flushed)
func verifHarness_C09_trailer_value_set_after_body() {
	conn := &verifNetConn{failAt: -1}
	e := verifHTTPEngine()
	p := verifServerParser(conn, e, nil)
	req := &http.Request{Method: "GET", Proto: "HTTP/1.1", ProtoMajor: 1, ProtoMinor: 1, Header: http.Header{}}
	res := NewResponse(p, req)
	res.Header().Set("Date", "x")
	res.Header().Set("Content-Type", "t")
	res.Header().Set("Trailer", "X-T")
	n := 1 + verifChoose("body_len", 3)
	body := verifBytes("body", n)
	_, _ = res.Write(append([]byte(nil), body...))
	if verifChoose("flush", 2) == 1 {
		res.Flush()
	}
	tv := []byte([]string{"tv", "x", "late value"}[verifChoose("trailer_value", 3)])
	res.Header().Set("X-T", string(tv))
	(&ServerProcessor{}).flushResponse(p, res)
	w := conn.wire()
	d := verifDecodeResponse(w)
	if !d.ok {
		verifNote("decode failed: " + d.why)
		verifNoteInt("wirelen", len(w))
	}
	verifAssertD(d.ok && d.consumed == len(w), "wire-decodes-as-one-response", "late-trailer")
	if d.ok {
		verifAssertD(len(d.body) == n && verifEqBytes(d.body, body), "body-is-concatenation-of-writes", "late-trailer")
		ok := len(d.trailers) == 1 && d.trailers[0].k == "X-T" && verifEqString(d.trailers[0].v, string(tv))
		verifAssertD(ok, "declared-trailer-delivered", "value-set-after-body")
	}
	verifAssert(false, "witness")
}

// Flush in the middle of an answer to an HTTP/1.0 request that declares no
// length (no chunking available): whatever Flush does, the wire must still be
// one response carrying all the written bytes.
func verifHarness_C09_http10_flush_without_length() {
	conn := &verifNetConn{failAt: -1}
	e := verifHTTPEngine()
	p := verifServerParser(conn, e, nil)
	req := &http.Request{Method: "GET", Proto: "HTTP/1.0", ProtoMajor: 1, ProtoMinor: 0, Header: http.Header{}}
	res := NewResponse(p, req)
	res.Header().Set("Date", "x")
	res.Header().Set("Content-Type", "t")
	a := verifBytes("a", 1+verifChoose("len_a", 2))
	b := verifBytes("b", 1+verifChoose("len_b", 2))
	_, _ = res.Write(append([]byte(nil), a...))
	res.Flush()
	_, _ = res.Write(append([]byte(nil), b...))
	(&ServerProcessor{}).flushResponse(p, res)
	w := conn.wire()
	d := verifDecodeResponse(w)
	verifAssertD(d.ok, "wire-decodes-as-one-response", "http10-flush")
	if d.ok {
		verifAssertD(d.consumed == len(w), "nothing-after-the-response", "http10-flush")
		want := append(append([]byte(nil), a...), b...)
		verifAssertD(len(d.body) == len(want) && verifEqBytes(d.body, want), "body-is-concatenation-of-writes", "http10-flush")
	}
	verifAssert(false, "witness")
}

// ReadFrom with a file on a connection that can send files (what
// http.ServeContent / io.Copy(w, file) reach): declared length, unsent head.
type verifSendfileConn struct {
	verifNetConn
	sent int64
}

func (c *verifSendfileConn) Sendfile(f *os.File, remain int64) (int64, error) {
	c.sent += remain
	return remain, nil
}

func verifHarness_C09_readfrom_file() {
	conn := &verifSendfileConn{}
	conn.failAt = -1
	e := verifHTTPEngine()
	p := verifServerParser(conn, e, nil)
	req := &http.Request{Method: "GET", Proto: "HTTP/1.1", ProtoMajor: 1, ProtoMinor: 1, Header: http.Header{}}
	res := NewResponse(p, req)
	res.Header().Set("Date", "x")
	res.Header().Set("Content-Length", "7")
	var f *os.File // the connection above never looks into it
	panics0 := verifPanicCount()
	var err error
	if verifChoose("limited", 2) == 1 {
		_, err = res.ReadFrom(&io.LimitedReader{R: f, N: 7})
	} else {
		_, err = res.ReadFrom(f)
	}
	verifAssertD(verifPanicCount() == panics0, "no-panic-in-readfrom", "file")
	verifAssertD(err == nil, "successful-write-reports-its-size", "readfrom-file")
	verifAssert(false, "witness")
}

package nbhttp

import (
	"errors"
	"io"
	"net"
	"net/http"
	"net/url"
	"time"

	"github.com/lesismal/nbio/mempool"
)

// C10, client part — the real ClientConn (Do bookkeeping, onResponse,
// CloseWithError) behind the real client Parser and ClientProcessor, on a
// recording connection. The solver picks the history: which of {issue the
// next request, deliver the next response (or the next two in one read), close the
// connection} happens at each step.

type verifClientLog struct {
	calls   []int
	gotRes  []bool
	gotErr  []error
	status  []int
	body    [][]byte
	inOrder bool
	order   []int
}

func verifC10ClientRequest(i int) *http.Request {
	return &http.Request{
		Method:     "GET",
		URL:        &url.URL{Scheme: "http", Host: "h", Path: "/" + string(rune('a'+i))},
		Header:     http.Header{},
		Host:       "h",
		Proto:      "HTTP/1.1",
		ProtoMajor: 1,
		ProtoMinor: 1,
	}
}

// verifC10ClientResponse builds the i-th answer: status 2dd and two body bytes
// are the solver's.
func verifC10ClientResponse(i int, chunked bool, w *verifClientWant) []byte {
	d1, d2 := verifByte("status_digit"), verifByte("status_digit")
	verifAssume(verifAnd(d1 >= '0', d1 <= '9'))
	verifAssume(verifAnd(d2 >= '0', d2 <= '9'))
	verifAssume(!verifAnd(d1 == '0', d2 == '4')) // 204 carries no body
	b := verifBytes("body", 2)
	w.status[i] = 200 + 10*int(d1-'0') + int(d2-'0')
	w.body[i] = b
	r := []byte("HTTP/1.1 2")
	r = append(r, d1, d2)
	r = append(r, " OK\r\n"...)
	if chunked {
		r = append(r, "Transfer-Encoding: chunked\r\n\r\n2\r\n"...)
		r = append(r, b...)
		r = append(r, "\r\n0\r\n\r\n"...)
	} else {
		r = append(r, "Content-Length: 2\r\n\r\n"...)
		r = append(r, b...)
	}
	return r
}

type verifClientWant struct {
	status []int
	body   [][]byte
}

func verifC10Client(nreq, steps int, useDo bool) {
	conn := &verifNetConn{failAt: -1}
	e := verifHTTPEngine()
	// response bodies live in pooled buffers: a tracking allocator (4-byte
	// buffers, freed memory is poisoned) watches their ownership as well (C11)
	tr := &verifTrackAlloc{inner: mempool.New(4, 1<<20)}
	e.BodyAllocator = tr
	mempool.DefaultMemPool = tr
	cc := &ClientConn{Engine: e, conn: conn}
	// after a lost connection ClientConn dials again; here that always fails
	cc.Dial = func(network, addr string) (net.Conn, error) { return nil, errors.New("verif: dial refused") }
	// with a timeout configured, every look at the (virtual, solver-driven)
	// clock may find the next request overdue: the client then fails all
	// pending requests and drops the connection
	if useDo { // (the bookkeeping-only variant has no request times and no re-dial)
		cc.Timeout = []time.Duration{0, time.Second}[verifChoose("client_timeout", 2)]
	}
	proc := NewClientProcessor(cc, cc.onResponse)
	p := NewParser(conn, e, proc, true, func(f func()) bool { f(); return true })
	p.OnClose(func(p *Parser, err error) { cc.CloseWithError(err) })
	closes := 0
	cc.OnClose(func() { closes++ })
	l := &verifClientLog{calls: make([]int, nreq), gotRes: make([]bool, nreq), gotErr: make([]error, nreq), status: make([]int, nreq), body: make([][]byte, nreq)}
	issued, answered := 0, 0
	want := &verifClientWant{status: make([]int, nreq), body: make([][]byte, nreq)}
	closed := false
	answeredOpen := make([]bool, nreq)
	issuedOpen := make([]bool, nreq)
	errClose := errors.New("verif: connection lost")
	failWrite := verifChoose("request_write_fails_at", nreq+1) // nreq: never
	if !useDo {
		failWrite = nreq
	}
	for s := 0; s < steps; s++ {
		// the enabled events at this point of the history
		var ops []int
		if issued < nreq {
			ops = append(ops, 0)
		}
		if !closed && answered < issued {
			ops = append(ops, 1)
			if answered+1 < issued {
				ops = append(ops, 2)
			}
		}
		if !closed {
			ops = append(ops, 3)
		}
		if len(ops) == 0 {
			break
		}
		op := ops[verifConc(verifInt("op", 0, len(ops)-1))] // the solver enumerates the histories
		switch op {
		case 0: // the application issues the next request
			i := issued
			issued++
			h := func(res *http.Response, c net.Conn, err error) {
				l.calls[i]++
				l.order = append(l.order, i)
				l.gotErr[i] = err
				if res != nil {
					l.gotRes[i] = true
					l.status[i] = res.StatusCode
					if res.Body != nil {
						b, _ := io.ReadAll(res.Body)
						l.body[i] = b
					}
				}
			}
			if useDo {
				if i == failWrite {
					conn.failAt = conn.nwrites
				}
				wasClosed := closed
				cc.Do(verifC10ClientRequest(i), h)
				if i == failWrite && !wasClosed {
					// the request could not be written: everything pending fails
					closed = true
				} else if !wasClosed {
					issuedOpen[i] = true
				}
			} else {
				// what Do does before sending the request
				cc.mux.Lock()
				if cc.closed {
					cc.mux.Unlock()
					h(nil, nil, ErrClientClosed)
				} else {
					cc.handlers = append(cc.handlers, resHandler{c: cc.conn, h: h})
					cc.mux.Unlock()
					issuedOpen[i] = true
				}
			}
		case 1, 2: // the server's next answer arrives, or the next two in one read
			var r []byte
			for k := 0; k < op; k++ {
				i := answered
				answered++
				r = append(r, verifC10ClientResponse(i, verifChoose("chunked", 2) == 1, want)...)
				answeredOpen[i] = issuedOpen[i]
			}
			if err := p.Parse(r); err != nil {
				verifFail("well-formed-response-rejected", "")
			}
			for j := range r {
				r[j] = 0xEE // the read buffer is reused
			}
		case 3: // the connection is lost
			closed = true
			p.CloseAndClean(errClose)
		}
		if cc.conn == nil {
			closed = true // the client gave the connection up itself (timeout, failed write)
		}
	}
	if !closed {
		p.CloseAndClean(errClose)
	}
	for i := 0; i < issued; i++ {
		verifAssertD(l.calls[i] == 1, "client-callback-exactly-once", "")
		if l.gotRes[i] {
			verifAssertD(l.status[i] == want.status[i], "client-callback-gets-its-own-response", "status")
			verifAssertD(verifEqBytes(l.body[i], want.body[i]), "client-callback-gets-its-own-response", "body")
			verifAssertD(l.gotErr[i] == nil, "client-callback-response-xor-error", "")
		} else {
			verifAssertD(l.gotErr[i] != nil, "client-callback-response-xor-error", "")
		}
		if answeredOpen[i] && cc.Timeout == 0 {
			// the answer arrived on the open connection of a sent request (with a
			// timeout configured the client may have given the request up before)
			verifAssertD(l.gotRes[i], "delivered-response-reaches-its-callback", "")
			verifReach("response-delivered")
		}
	}
	for i := issued; i < nreq; i++ {
		verifAssertD(l.calls[i] == 0, "client-callback-only-for-issued-requests", "")
	}
	for k := 1; k < len(l.order); k++ {
		if l.gotRes[l.order[k-1]] && l.gotRes[l.order[k]] {
			verifAssertD(l.order[k-1] < l.order[k], "client-responses-in-request-order", "")
		}
	}
	_ = closes
}

func verifHarness_C10_client_handlers_three() {
	verifBound("requests", 3)
	verifBound("steps", 6)
	verifC10Client(3, 6, false)
	verifAssert(false, "witness")
}

func verifHarness_C10_client_do_three() {
	verifBound("requests", 3)
	verifBound("steps", 6)
	verifC10Client(3, 6, true)
	verifAssert(false, "witness")
}

package nbhttp

import (
	"net/http"

	"github.com/lesismal/nbio"
)

// C10 — single-connection core of HTTP exchanges: pipelined requests through
// the real Parser, ServerProcessor, nbio.Conn job queue, handler and response
// writer onto a recording connection.

func verifC10Server(nreq int, executorGo bool, cut bool, preempt int) {
	conn := &verifNetConn{failAt: -1}
	e := verifHTTPEngine()
	handled := 0
	running, maxRun := 0, 0
	// some answers are larger than the response writer's (scaled) flush threshold
	bigFirst := verifChoose("big_first_body", 2) == 1
	extra := func(i int) int {
		if bigFirst && i == 0 {
			return 130
		}
		return 0
	}
	e.Handler = http.HandlerFunc(func(w http.ResponseWriter, r *http.Request) {
		handled++
		running++
		if running > maxRun {
			maxRun = running
		}
		verifYield()
		_, _ = w.Write([]byte(r.URL.Path))
		if n := extra(int(r.URL.Path[1] - 'a')); n > 0 {
			_, _ = w.Write(make([]byte, n))
		}
		running--
	})
	var nbc *nbio.Conn
	if executorGo {
		nbc = nbio.VerifNewConn(func(f func()) { go f() })
		verifSched(true, preempt)
	} else {
		nbc = nbio.VerifNewConn(nil)
	}
	p := NewParser(conn, e, NewServerProcessor(), false, nbc.Execute)
	var stream []byte
	closeAfter := -1
	for i := 0; i < nreq; i++ {
		vs := verifByte("minor")
		verifAssume(verifOr(vs == '0', vs == '1'))
		v := byte(verifConc(int(vs))) // the solver enumerates the versions; bytes on the wire stay concrete
		ck := verifChoose("connection", 5)
		req := []byte("GET /")
		req = append(req, byte('a'+i))
		req = append(req, " HTTP/1."...)
		req = append(req, v)
		req = append(req, "\r\nHost: h\r\n"...)
		switch ck {
		case 1:
			req = append(req, "Connection: close\r\n"...)
		case 2:
			req = append(req, "Connection: keep-alive\r\n"...)
		case 3:
			req = append(req, "Connection: Close\r\n"...)
		case 4:
			req = append(req, "Connection: x\r\n"...)
		}
		req = append(req, "\r\n"...)
		stream = append(stream, req...)
		// RFC 7230 6.1/6.3 persistence
		closes := verifOr(ck == 1, ck == 3)
		closes = verifOr(closes, verifAnd(v == '0', ck != 2))
		if closeAfter < 0 {
			if closes { // a branch: one path per persistence outcome
				closeAfter = i
			}
		}
	}
	if cut {
		k := verifConc(verifInt("cut", 1, len(stream)-1))
		a := append([]byte(nil), stream[:k]...)
		if err := p.Parse(a); err != nil {
			verifFail("well-formed-request-rejected", "")
		}
		for i := range a {
			a[i] = 0xEE
		}
		stream = stream[k:]
	}
	if err := p.Parse(append([]byte(nil), stream...)); err != nil {
		verifFail("well-formed-request-rejected", "")
	}
	verifJoin()
	want := nreq
	if closeAfter >= 0 {
		want = closeAfter + 1
	}
	w := conn.wire()
	pos := 0
	got := 0
	for pos < len(w) {
		d := verifDecodeResponse(w[pos:])
		if !d.ok {
			verifNote("decode failed: " + d.why)
			verifNoteInt("wirelen", len(w))
			verifNoteInt("pos", pos)
		}
		verifAssertD(d.ok, "wire-is-a-sequence-of-whole-responses", "")
		if !d.ok {
			return
		}
		verifAssertD(len(d.body) == 2+extra(got) && d.body[0] == '/' && d.body[1] == byte('a'+got), "responses-in-request-order", "")
		if got < want-1 || closeAfter < 0 {
			_, n := d.get("Connection")
			verifAssertD(n == 0, "persistent-response-does-not-announce-close", "")
		}
		pos += d.consumed
		got++
	}
	verifAssertD(got == want, "one-response-per-request-until-close", "")
	verifAssertD(conn.closed == (closeAfter >= 0), "connection-persistence-follows-version-and-connection-header", "")
	verifAssertD(maxRun <= 1, "handlers-of-one-connection-do-not-overlap", "")
	if closeAfter < 0 {
		verifAssertD(len(conn.deadlines) >= 1, "keepalive-deadline-set", "")
	}
	if got >= 2 {
		verifReach("pipelined")
	}
}

func verifHarness_C10_two_requests_inline() {
	verifBound("requests", 2)
	verifC10Server(2, false, false, 0)
	verifAssert(false, "witness")
}

func verifHarness_C10_two_requests_goroutine_executor() {
	verifBound("preemptions", 1)
	verifC10Server(2, true, false, 1)
	verifAssert(false, "witness")
}

func verifHarness_C10_two_requests_cut_T() {
	verifC10Server(2, false, true, 0)
	verifAssert(false, "witness")
}

func verifHarness_C10_three_requests_inline_T() {
	verifBound("requests", 3)
	verifC10Server(3, false, false, 0)
	verifAssert(false, "witness")
}

// Isolation between connections sharing the engine's request/response object
// pools (sync.Pool may hand out ANY free object): connection A's exchange ends
// normally, with "Connection: close", or with a failing response write; then
// two further connections have their requests parsed before either handler
// runs, and the handlers run in either order. Each connection's wire must hold
// exactly its own answer.
func verifHarness_C10_isolation_after_other_connection_ended() {
	verifBound("connections", 3)
	verifPoolMode(1)
	e := verifHTTPEngine()
	e.Handler = http.HandlerFunc(func(w http.ResponseWriter, r *http.Request) {
		_, _ = w.Write([]byte(r.URL.Path))
	})
	// connection A
	endA := verifChoose("first_connection_ends", 3)
	ca := &verifNetConn{failAt: -1}
	if endA == 2 {
		ca.closed = true // the peer is gone: every write fails
	}
	pa := NewParser(ca, e, NewServerProcessor(), false, nil)
	reqA := "GET /a HTTP/1.1\r\nHost: h\r\n\r\n"
	if endA == 1 {
		reqA = "GET /a HTTP/1.1\r\nHost: h\r\nConnection: close\r\n\r\n"
	}
	errA := pa.Parse([]byte(reqA))
	pa.CloseAndClean(errA)
	// connections B and C: jobs are queued, then run in a chosen order
	var jobs []func()
	mk := func() (*verifNetConn, *Parser) {
		c := &verifNetConn{failAt: -1}
		p := NewParser(c, e, NewServerProcessor(), false, func(f func()) bool { jobs = append(jobs, f); return true })
		return c, p
	}
	cb, pb := mk()
	cc, pc := mk()
	if pb.Parse([]byte("GET /b HTTP/1.1\r\nHost: h\r\n\r\n")) != nil || pc.Parse([]byte("GET /c HTTP/1.1\r\nHost: h\r\n\r\n")) != nil {
		verifFail("well-formed-request-rejected", "isolation")
		return
	}
	verifAssertD(len(jobs) == 2, "one-handler-job-per-request", "isolation")
	if len(jobs) != 2 {
		return
	}
	panics0 := verifPanicCount()
	if verifChoose("handler_order", 2) == 1 {
		jobs[1]()
		jobs[0]()
	} else {
		jobs[0]()
		jobs[1]()
	}
	verifAssertD(verifPanicCount() == panics0, "no-panic-in-handler", "isolation")
	for i, c := range []*verifNetConn{cb, cc} {
		w := c.wire()
		d := verifDecodeResponse(w)
		verifAssertD(d.ok && d.consumed == len(w), "one-response-per-request-until-close", "isolation")
		if d.ok {
			verifAssertD(len(d.body) == 2 && d.body[0] == '/' && d.body[1] == byte('b'+i), "response-belongs-to-this-connection", "")
		}
	}
	if endA != 2 {
		w := ca.wire()
		d := verifDecodeResponse(w)
		verifAssertD(d.ok && d.consumed == len(w) && len(d.body) == 2 && d.body[1] == 'a', "response-belongs-to-this-connection", "first")
	}
	verifAssert(false, "witness")
}

// the server core on a REAL nbio.Conn whose peer reads slowly (kernel model,
// small receive window): the answer to a request that asks for the connection
// to be closed must still arrive whole — closing must not discard what the
// connection has accepted but not yet been able to send.
func verifHarness_C10_answer_before_close_on_slow_peer() {
	space := 8 + verifChoose("peer_window", 2)*200
	s := nbio.VerifNewStream(space)
	e := verifHTTPEngine()
	n := 1 + verifChoose("body_len", 3)
	body := verifBytes("body", n)
	served := 0
	e.Handler = http.HandlerFunc(func(w http.ResponseWriter, r *http.Request) {
		served++
		_, _ = w.Write(append([]byte(nil), body...))
	})
	p := NewParser(s.C, e, NewServerProcessor(), false, nil)
	req := "GET /c HTTP/1.1\r\nHost: h\r\nConnection: close\r\n\r\n"
	if verifChoose("http10", 2) == 1 {
		req = "GET /c HTTP/1.0\r\nHost: h\r\n\r\n"
	}
	// the client may have pipelined another request behind the one that ends
	// the connection: no answer to it reaches the wire, and it does not harm the
	// last answer
	if verifChoose("pipelined_successor", 2) == 1 {
		req += "GET /d HTTP/1.1\r\nHost: h\r\n\r\n"
	}
	_ = p.Parse([]byte(req)) // (an error for the successor is acceptable)
	s.DrainAll(space)
	w := s.Wire()
	d := verifDecodeResponse(w)
	if !d.ok || d.consumed != len(w) {
		verifNote("decode: " + d.why)
		verifNoteInt("wire_len", len(w))
		verifNoteInt("peer_window", space)
	}
	if space >= 100 {
		// with room for the whole answer nothing is queued at the close
		verifAssertD(d.ok && d.consumed == len(w), "one-response-per-request-until-close", "whole-answer-fits-the-window")
	}
	verifAssertD(d.ok && d.consumed == len(w), "one-response-per-request-until-close", "whole-answer-before-close")
	if d.ok {
		verifAssertD(len(d.body) == n && verifEqBytes(d.body, body), "responses-in-request-order", "slow-peer")
	}
	verifAssertD(s.Closed(), "connection-persistence-follows-version-and-connection-header", "slow-peer")
	_ = served // (the handler of a pipelined successor may still run: the repo's own parser tests feed requests behind a "Connection: close" one and expect them counted; what C10 fixes is the wire)
	if space < 100 {
		verifReach("backlog-at-close")
	}
	verifAssert(false, "witness")
}

package nbhttp

import (
	"net/http"
	"time"
)

// C16 (HTTP keep-alive site): after each response on a persistent connection
// the read deadline is renewed to now + KeepaliveTime, not earlier.
func verifHarness_C16_http_keepalive_renewal() {
	conn := &verifNetConn{failAt: -1}
	e := verifHTTPEngine()
	ka := verifInt("keepalive_ns", 1, 1000000000)
	e.KeepaliveTime = time.Duration(ka)
	p := verifServerParser(conn, e, nil)
	closeReq := verifBool("request_close")
	req := &http.Request{Method: "GET", Proto: "HTTP/1.1", ProtoMajor: 1, ProtoMinor: 1, Header: http.Header{}, Close: closeReq}
	res := NewResponse(p, req)
	_, _ = res.Write([]byte("ok"))
	before := verifNow()
	(&ServerProcessor{}).flushResponse(p, res)
	after := verifNow()
	if closeReq {
		verifAssertD(conn.closed && len(conn.deadlines) == 0, "closing-response-sets-no-deadline", "")
	} else {
		verifReach("renewed")
		verifAssertD(!conn.closed && len(conn.deadlines) == 1, "keepalive-deadline-renewed-after-response", "")
		if len(conn.deadlines) == 1 {
			d := conn.deadlines[0].UnixNano()
			verifAssertD(d >= before+int64(ka), "keepalive-deadline-not-early", "")
			verifAssertD(d <= after+int64(ka), "keepalive-deadline-is-now-plus-keepalive", "")
		}
	}
	verifAssert(false, "witness")
}

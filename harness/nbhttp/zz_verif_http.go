package nbhttp

// Shared harness infrastructure for the HTTP properties (C06-C11).

import (
	"net"
	"net/http"
	"time"

	"github.com/lesismal/nbio/mempool"
)

type verifNetConn struct {
	writes    [][]byte
	nwrites   int
	failAt    int // index of the Write call that fails (-1: never)
	closed    bool
	closes    int
	deadlines []time.Time
}

type verifNetAddr struct{}

func (verifNetAddr) Network() string { return "fake" }
func (verifNetAddr) String() string  { return "fake:1" }

func (f *verifNetConn) Read(b []byte) (int, error) { return 0, net.ErrClosed }
func (f *verifNetConn) Write(b []byte) (int, error) {
	i := f.nwrites
	f.nwrites++
	if f.closed || i == f.failAt {
		return 0, net.ErrClosed
	}
	cp := make([]byte, len(b))
	copy(cp, b)
	f.writes = append(f.writes, cp)
	return len(b), nil
}
func (f *verifNetConn) Close() error {
	f.closed = true
	f.closes++
	return nil
}
func (f *verifNetConn) LocalAddr() net.Addr                { return verifNetAddr{} }
func (f *verifNetConn) RemoteAddr() net.Addr               { return verifNetAddr{} }
func (f *verifNetConn) SetDeadline(t time.Time) error      { return nil }
func (f *verifNetConn) SetReadDeadline(t time.Time) error  { f.deadlines = append(f.deadlines, t); return nil }
func (f *verifNetConn) SetWriteDeadline(t time.Time) error { return nil }

func (f *verifNetConn) wire() []byte {
	var w []byte
	for _, b := range f.writes {
		w = append(w, b...)
	}
	return w
}

func verifHTTPEngine() *Engine {
	e := &Engine{}
	e.ReadLimit = 1 << 20
	e.MaxHTTPBodySize = 1 << 20
	e.KeepaliveTime = time.Second
	e.BodyAllocator = mempool.DefaultMemPool
	e.emptyRequest = &http.Request{}
	return e
}

func verifServerParser(conn net.Conn, e *Engine, proc Processor) *Parser {
	p := &Parser{Engine: e, Conn: conn, Processor: proc}
	p.Execute = func(f func()) bool { f(); return true }
	return p
}

// ---- reference HTTP/1.x response decoder (independent of nbhttp)

type verifHeader struct{ k, v string }

type verifDecoded struct {
	proto    string
	code     int
	status   string
	headers  []verifHeader
	trailers []verifHeader
	body     []byte
	chunked  bool
	hasCL    bool
	cl       int
	consumed int
	ok       bool
	why      string
}

func (d *verifDecoded) get(k string) (string, int) {
	n := 0
	v := ""
	for _, h := range d.headers {
		if h.k == k {
			if n == 0 {
				v = h.v
			}
			n++
		}
	}
	return v, n
}

func verifReadLine(w []byte, pos int) (string, int, bool) {
	for i := pos; i+1 < len(w); i++ {
		if verifIsSymbolic(int(w[i])) {
			// a payload byte where protocol structure is expected: misframed
			return "", pos, false
		}
		if w[i] == '\r' && w[i+1] == '\n' {
			return string(w[pos:i]), i + 2, true
		}
	}
	return "", pos, false
}

func verifParseHeaderLine(line string) (verifHeader, bool) {
	for i := 0; i < len(line); i++ {
		if line[i] == ':' {
			v := line[i+1:]
			for len(v) > 0 && v[0] == ' ' {
				v = v[1:]
			}
			for len(v) > 0 && v[len(v)-1] == ' ' {
				v = v[:len(v)-1]
			}
			return verifHeader{line[:i], v}, i > 0
		}
	}
	return verifHeader{}, false
}

func verifAtoi(s string, base int) (int, bool) {
	if len(s) == 0 {
		return 0, false
	}
	n := 0
	for i := 0; i < len(s); i++ {
		c := s[i]
		d := -1
		switch {
		case c >= '0' && c <= '9':
			d = int(c - '0')
		case base == 16 && c >= 'a' && c <= 'f':
			d = int(c-'a') + 10
		case base == 16 && c >= 'A' && c <= 'F':
			d = int(c-'A') + 10
		}
		if d < 0 {
			return 0, false
		}
		n = n*base + d
		if n > 1<<30 {
			return 0, false
		}
	}
	return n, true
}

// verifDecodeResponse decodes one response from w.
func verifDecodeResponse(w []byte) verifDecoded {
	var d verifDecoded
	line, pos, ok := verifReadLine(w, 0)
	if !ok || len(line) < 12 {
		d.why = "no status line"
		return d
	}
	d.proto = line[:8]
	if line[8] != ' ' || line[12:13] != " " && len(line) > 12 {
		d.why = "malformed status line"
		return d
	}
	code, ok := verifAtoi(line[9:12], 10)
	if !ok {
		d.why = "bad status code"
		return d
	}
	d.code = code
	if len(line) > 13 {
		d.status = line[13:]
	}
	for {
		line, pos, ok = verifReadLine(w, pos)
		if !ok {
			d.why = "unterminated header block"
			return d
		}
		if line == "" {
			break
		}
		h, ok := verifParseHeaderLine(line)
		if !ok {
			d.why = "malformed header line"
			return d
		}
		d.headers = append(d.headers, h)
	}
	te, nte := d.get("Transfer-Encoding")
	cl, ncl := d.get("Content-Length")
	if nte > 0 {
		if te != "chunked" || nte > 1 {
			d.why = "unsupported transfer-encoding"
			return d
		}
		d.chunked = true
	}
	if ncl > 0 {
		n, ok := verifAtoi(cl, 10)
		if !ok || ncl > 1 {
			d.why = "bad content-length"
			return d
		}
		d.hasCL, d.cl = true, n
	}
	if d.chunked {
		for {
			line, pos, ok = verifReadLine(w, pos)
			if !ok {
				d.why = "missing chunk size line"
				return d
			}
			n, ok := verifAtoi(line, 16)
			if !ok {
				d.why = "bad chunk size"
				return d
			}
			if n == 0 {
				break
			}
			if pos+n+2 > len(w) {
				d.why = "chunk runs past end"
				return d
			}
			d.body = append(d.body, w[pos:pos+n]...)
			pos += n
			if verifIsSymbolic(int(w[pos])) || verifIsSymbolic(int(w[pos+1])) || w[pos] != '\r' || w[pos+1] != '\n' {
				d.why = "chunk not followed by CRLF"
				return d
			}
			pos += 2
		}
		for {
			line, pos, ok = verifReadLine(w, pos)
			if !ok {
				d.why = "unterminated trailer block"
				return d
			}
			if line == "" {
				break
			}
			h, ok := verifParseHeaderLine(line)
			if !ok {
				d.why = "malformed trailer line"
				return d
			}
			d.trailers = append(d.trailers, h)
		}
	} else if d.hasCL {
		if pos+d.cl > len(w) {
			d.why = "body shorter than content-length"
			return d
		}
		d.body = append(d.body, w[pos:pos+d.cl]...)
		pos += d.cl
	} else {
		d.why = "no framing"
		return d
	}
	d.consumed = pos
	d.ok = true
	return d
}

var _ = http.StatusOK

// what a client sees of a response (nbio's or net/http's)
type verifSeenRes struct {
	code         int
	status       string
	major, minor int
	header       http.Header
	cl           int64
	body         []byte
	trailer      http.Header
}

func verifSnapshotRes(r *http.Response) *verifSeenRes {
	s := &verifSeenRes{code: r.StatusCode, status: r.Status, major: r.ProtoMajor, minor: r.ProtoMinor, header: r.Header, cl: r.ContentLength}
	if r.Body != nil {
		buf := make([]byte, 64)
		for {
			n, err := r.Body.Read(buf)
			s.body = append(s.body, buf[:n]...)
			if err != nil || n == 0 {
				break
			}
		}
	}
	s.trailer = r.Trailer
	return s
}


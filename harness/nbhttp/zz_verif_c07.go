package nbhttp

import (
	"bufio"
	"bytes"
	"fmt"
	"io"
	"net/http"
)

func fmtPrintSelfC07(n, skipped, failed int) {
	fmt.Printf("SELF-C07 instances=%d skipped=%d failures=%d model-vs-net/http\n", n, skipped, failed)
}

// C07 — agreement with net/http on well-formed requests. A structured message
// m is built from solver-chosen parts and serialised per RFC 7230; what the
// handler sees must equal m. The same builder/comparator is run natively
// against http.ReadRequest on seeded random instances (selftest), which ties
// the model to the reference parser.

type verifHdr struct {
	name, value string // value without optional whitespace
}

type verifMsgModel struct {
	method   string
	target   string
	minor    int
	hdrs     []verifHdr
	host     string
	framing  int // 0 none, 1 content-length, 2 chunked
	body     []byte
	trailer  bool
	close    bool
	next     bool // a pipelined successor follows
	wire     []byte
	msgLen   int
}

type verifSeenReq struct {
	method, uri, host string
	major, minor      int
	header            http.Header
	cl                int64
	te                []string
	body              []byte
	trailer           http.Header
	close             bool
}

var verifMethods = []string{"GET", "HEAD", "POST", "PUT", "DELETE", "CONNECT", "OPTIONS", "TRACE", "PATCH"}

func verifUnreserved(c byte) bool {
	ok := verifOr(verifAnd(c >= 'a', c <= 'z'), verifAnd(c >= '0', c <= '9'))
	ok = verifOr(ok, verifAnd(c >= 'A', c <= 'Z'))
	return verifOr(ok, verifOr(c == '-', verifOr(c == '.', verifOr(c == '_', c == '~'))))
}

func verifTokenChar(c byte) bool {
	ok := verifOr(verifAnd(c >= 'a', c <= 'z'), verifAnd(c >= '0', c <= '9'))
	ok = verifOr(ok, verifAnd(c >= 'A', c <= 'Z'))
	return verifOr(ok, c == '-')
}

func verifVisible(c byte) bool { return verifAnd(c >= 0x21, c <= 0x7e) }

// shape selects which part of the message space a harness covers:
// 0: request line + free header, no body; 1: Content-Length bodies; 2: chunked bodies
func verifC07Build(full bool) *verifMsgModel { return verifC07BuildShape(full, -1) }

func verifC07BuildShape(full bool, shape int) *verifMsgModel {
	m := &verifMsgModel{}
	if shape <= 0 {
		m.method = verifMethods[verifChoose("method", len(verifMethods))]
	} else if shape == 3 {
		m.method = "GET"
	} else if shape == 1 {
		m.method = []string{"POST", "PUT"}[verifChoose("method", 2)]
	} else {
		m.method = "POST"
	}
	trailerShape := shape == 4
	if trailerShape {
		shape = 2
	}
	if m.method == "CONNECT" {
		m.method = "GET" // authority-form targets are outside the agreement subset
	}
	nt := 2
	if shape > 0 {
		nt = 1
	}
	if shape == 3 || trailerShape {
		nt = 0
	}
	t := verifBytes("target", nt)
	for _, c := range t {
		verifAssume(verifUnreserved(c))
	}
	m.target = "/" + string(t)
	m.minor = verifChoose("minor", 2)
	w := []byte(m.method + " " + m.target + " HTTP/1.")
	w = append(w, byte('0'+m.minor), '\r', '\n')
	m.host = "h"
	w = append(w, "Host: h\r\n"...)
	// one free header: token name, visible value, optional whitespace around it
	nn := 2
	if shape == 1 || shape == 2 {
		nn = 1
	}
	if shape == 0 || trailerShape {
		nn = 0
	}
	name := verifBytes("hname", nn)
	for _, c := range name {
		verifAssume(verifTokenChar(c))
	}
	hn := "X" + string(name) // never collides with a framing header
	nv := 2
	if shape == 0 || trailerShape {
		nv = 0
	}
	val := verifBytes("hvalue", nv)
	if shape == 0 || trailerShape {
		val = []byte("v")
	}
	for _, c := range val {
		verifAssume(verifVisible(c))
	}
	m.hdrs = append(m.hdrs, verifHdr{hn, string(val)})
	w = append(w, hn...)
	w = append(w, ':')
	if (shape == 3 || shape == 1 || shape < 0) && verifChoose("ows_before", 2) == 1 {
		w = append(w, ' ')
	}
	w = append(w, val...)
	if (shape == 3 || shape == 1 || shape < 0) && verifChoose("ows_after", 2) == 1 {
		w = append(w, ' ')
	}
	w = append(w, '\r', '\n')
	ck := 0
	if shape == 3 || shape == 1 || shape < 0 {
		ck = verifChoose("connection", 3)
	}
	switch ck {
	case 1:
		w = append(w, "Connection: close\r\n"...)
		m.hdrs = append(m.hdrs, verifHdr{"Connection", "close"})
		m.close = true
	case 2:
		w = append(w, "Connection: keep-alive\r\n"...)
		m.hdrs = append(m.hdrs, verifHdr{"Connection", "keep-alive"})
		m.close = false
	default:
		m.close = false
	}
	if m.minor == 0 && !(len(m.hdrs) == 2 && m.hdrs[1].value == "keep-alive") {
		m.close = true
	}
	nfr := 2
	if m.minor == 1 {
		nfr = 3
	}
	m.framing = verifChoose("framing", nfr)
	if shape >= 0 {
		if shape == 2 && m.minor == 0 {
			verifAssume(false)
		}
		m.framing = shape
		if shape == 3 {
			m.framing = 0
		}
	}
	if m.method == "GET" || m.method == "HEAD" {
		if m.framing == 2 && !full {
			m.framing = 0
		}
	}
	switch m.framing {
	case 0:
		w = append(w, '\r', '\n')
	case 1:
		n := 1 + verifChoose("body_len", 3)
		m.body = verifBytes("body", n)
		w = append(w, "Content-Length: "...)
		w = append(w, byte('0'+n), '\r', '\n', '\r', '\n')
		w = append(w, m.body...)
	case 2:
		declU := false
		m.trailer = verifChoose("trailer", 2) == 1
		if trailerShape {
			m.trailer = true
			shape = 4
		}
		w = append(w, "Transfer-Encoding: chunked\r\n"...)
		if m.trailer {
			// field names are case-insensitive: declared in any case, one name or a list
			decl := 0
			if shape == 4 {
				decl = verifChoose("trailer_decl", 4)
			}
			w = append(w, []string{"Trailer: X-T\r\n", "Trailer: x-t\r\n", "Trailer: X-t\r\n", "Trailer: x-T, X-U\r\n"}[decl]...)
			declU = decl == 3
		}
		w = append(w, '\r', '\n')
		nch := 1
		if shape != 4 {
			nch = 1 + verifChoose("chunks", 2)
		}
		for i := 0; i < nch; i++ {
			sz := []int{1, 10, 17}[verifChoose("chunk_size", 3)]
			data := verifBytes("chunk", sz)
			m.body = append(m.body, data...)
			hex := []string{"1", "a", "11"}
			if sz == 10 && verifChoose("hex_upper", 2) == 1 {
				hex[1] = "A"
			}
			w = append(w, hex[map[int]int{1: 0, 10: 1, 17: 2}[sz]]...)
			if verifChoose("chunk_ext", 2) == 1 {
				w = append(w, ";x=y"...)
			}
			w = append(w, '\r', '\n')
			w = append(w, data...)
			w = append(w, '\r', '\n')
		}
		w = append(w, '0', '\r', '\n')
		if m.trailer {
			tc := 0
			if shape == 4 {
				tc = verifChoose("trailer_case", 2)
			}
			w = append(w, []string{"X-T: tv\r\n", "x-t: tv\r\n"}[tc]...)
			if declU {
				// every declared trailer is sent (nbio insists on it; a declared
				// but absent trailer is outside the agreement subset)
				w = append(w, "X-U: uv\r\n"...)
			}
		}
		w = append(w, '\r', '\n')
	}
	m.msgLen = len(w)
	m.next = verifChoose("pipelined", 2) == 1
	if m.next {
		w = append(w, "GET /next HTTP/1.1\r\nHost: n\r\n\r\n"...)
	}
	m.wire = w
	return m
}

// verifC07Compare checks what a parser extracted against the model.
func verifC07Compare(m *verifMsgModel, s *verifSeenReq, who string) {
	verifAssertD(s.method == m.method, "method", who)
	verifAssertD(len(s.uri) == len(m.target) && verifEqString(s.uri, m.target), "request-target", who)
	verifAssertD(s.major == 1 && s.minor == m.minor, "version", who)
	verifAssertD(s.host == m.host, "host", who)
	for _, h := range m.hdrs {
		vals := s.header[http.CanonicalHeaderKey(h.name)]
		verifAssertD(len(vals) == 1, "header-present-once", who)
		if len(vals) == 1 {
			v := verifTrimOWS(vals[0])
			verifAssertD(len(v) == len(h.value) && verifEqString(v, h.value), "header-value-modulo-ows", who)
		}
	}
	switch m.framing {
	case 0:
		verifAssertD(s.cl <= 0 && len(s.te) == 0, "no-body-framing", who)
	case 1:
		verifAssertD(s.cl == int64(len(m.body)), "content-length", who)
	case 2:
		verifAssertD(len(s.te) == 1 && s.te[0] == "chunked", "transfer-encoding", who)
	}
	verifAssertD(len(s.body) == len(m.body), "body-length", who)
	if len(s.body) == len(m.body) {
		verifAssertD(verifEqBytes(s.body, m.body), "body-bytes", who)
	}
	if m.trailer {
		tv := s.trailer["X-T"]
		verifAssertD(len(tv) == 1 && tv[0] == "tv", "trailer", who)
	}
	verifAssertD(s.close == m.close, "connection-close-decision", who)
}

// verifTrimOWS strips optional whitespace (values are compared modulo OWS;
// symbolic bytes are visible characters by assumption)
func verifTrimOWS(s string) string {
	for len(s) > 0 && !verifIsSymbolic(int(s[0])) && (s[0] == ' ' || s[0] == '\t') {
		s = s[1:]
	}
	for len(s) > 0 && !verifIsSymbolic(int(s[len(s)-1])) && (s[len(s)-1] == ' ' || s[len(s)-1] == '\t') {
		s = s[:len(s)-1]
	}
	return s
}

func verifSnapshot(r *http.Request) *verifSeenReq {
	s := &verifSeenReq{method: r.Method, uri: r.RequestURI, host: r.Host, major: r.ProtoMajor, minor: r.ProtoMinor,
		header: r.Header, cl: r.ContentLength, te: r.TransferEncoding, close: r.Close}
	if r.Body != nil {
		buf := make([]byte, 64)
		for {
			n, err := r.Body.Read(buf)
			s.body = append(s.body, buf[:n]...)
			if err != nil || n == 0 {
				break
			}
		}
	}
	s.trailer = r.Trailer
	return s
}

func verifC07Run(full bool, shape int) {
	m := verifC07BuildShape(full, shape)
	e := verifHTTPEngine()
	var seen []*verifSeenReq
	e.Handler = http.HandlerFunc(func(w http.ResponseWriter, r *http.Request) {
		seen = append(seen, verifSnapshot(r))
	})
	conn := &verifNetConn{failAt: -1}
	p := NewParser(conn, e, NewServerProcessor(), false, nil)
	panics0 := verifPanicCount()
	err := p.Parse(append([]byte(nil), m.wire...))
	verifAssertD(verifPanicCount() == panics0, "no-panic-inside-parse", "nbio")
	verifAssertD(err == nil, "well-formed-message-accepted", "nbio")
	want := 1
	if m.next {
		want = 2
	}
	verifAssertD(len(seen) == want, "message-count", "nbio")
	if len(seen) >= 1 {
		verifC07Compare(m, seen[0], "nbio")
	}
	if m.next && len(seen) == 2 {
		verifReach("pipelined-successor")
		// the successor starts exactly where the reference says m ends
		verifAssertD(seen[1].method == "GET" && seen[1].uri == "/next" && seen[1].host == "n", "successor-parsed-from-message-boundary", "nbio")
	}
}

func verifHarness_C07_request_line() {
	verifBound("target_bytes", 2)
	verifC07Run(false, 0)
	verifAssert(false, "witness")
}

func verifHarness_C07_headers_and_persistence() {
	verifBound("free_header_name_bytes", 2)
	verifBound("free_header_value_bytes", 2)
	verifC07Run(false, 3)
	verifAssert(false, "witness")
}

func verifHarness_C07_content_length_bodies() {
	verifC07Run(false, 1)
	verifAssert(false, "witness")
}

func verifHarness_C07_trailer_declarations() {
	verifC07Run(false, 4)
	verifAssert(false, "witness")
}

func verifHarness_C07_chunked_bodies() {
	verifBound("chunks", 2)
	verifC07Run(false, 2)
	verifAssert(false, "witness")
}

// verifC07Reference runs the same model against net/http (native only: used by
// the selftest to validate the model on seeded random instances).
func verifC07Reference(full bool) (ok bool) { return verifC07ReferenceShape(full, -1) }

func verifC07ReferenceShape(full bool, shape int) (ok bool) {
	m := verifC07BuildShape(full, shape)
	br := bufio.NewReader(bytes.NewReader(m.wire))
	r, err := http.ReadRequest(br)
	if err != nil {
		verifFail("reference-rejects-well-formed-message", err.Error())
		return false
	}
	s := verifSnapshot(r)
	// documented representation differences
	if s.cl < 0 {
		s.cl = 0
	}
	if m.framing == 2 {
		s.cl = 0
	}
	verifC07CompareRef(m, s)
	if m.next {
		r2, err := http.ReadRequest(br)
		if err != nil || r2.RequestURI != "/next" {
			verifFail("reference-successor", "")
		}
	} else if _, err := br.Peek(1); err != io.EOF {
		verifFail("reference-boundary", "")
	}
	return true
}

func verifC07CompareRef(m *verifMsgModel, s *verifSeenReq) {
	mm := *m
	verifC07Compare(&mm, s, "net/http")
}


// verifSelfC07Native validates the message model against net/http on seeded
// random instances (native only; called by the selftest's generated test).
func verifSelfC07Native() {
	verifRandom = true
	n, skipped, failed := 0, 0, 0
	for i := 0; i < 4000 && n < 2000; i++ {
		verifFailures = nil
		ok := func() (ok bool) {
			defer func() {
				if r := recover(); r != nil {
					if _, isAssume := r.(verifAssumeFailed); isAssume {
						skipped++
						return
					}
					panic(r)
				}
			}()
			verifC07Reference(false)
			return true
		}()
		if !ok {
			continue
		}
		n++
		if len(verifFailures) > 0 {
			failed++
			if failed <= 3 {
				println("C07 model disagrees with net/http:", verifFailures[0])
			}
		}
	}
	verifRandom = false
	verifFailures = nil
	fmtPrintSelfC07(n, skipped, failed)
}

// The model itself against the real net/http.ReadRequest, interpreted
// symbolically: for ALL solver-chosen parts within the bounds the reference
// parser extracts what the model says (so "nbio == model" above is
// "nbio == net/http").
func verifHarness_C07_model_is_nethttp_request_line() {
	verifC07ReferenceShape(false, 0)
	verifAssert(false, "witness")
}

func verifHarness_C07_model_is_nethttp_headers_and_persistence() {
	verifC07ReferenceShape(false, 3)
	verifAssert(false, "witness")
}

func verifHarness_C07_model_is_nethttp_content_length_bodies_T() {
	verifC07ReferenceShape(false, 1)
	verifAssert(false, "witness")
}

func verifHarness_C07_model_is_nethttp_chunked_bodies_T() {
	verifC07ReferenceShape(false, 2)
	verifAssert(false, "witness")
}

func verifHarness_C07_model_is_nethttp_trailer_declarations() {
	verifC07ReferenceShape(false, 4)
	verifAssert(false, "witness")
}

// chunk-size lines: every hexadecimal digit in both cases, with a leading
// zero, and two-digit sizes — a direct differential between nbio's server
// parser and the real net/http.ReadRequest (interpreted).
func verifHarness_C07_request_chunk_size_digits() {
	verifBound("chunk_size_max", 20)
	d := verifByte("hex_digit")
	isDec := verifAnd(d >= '0', d <= '9')
	isLow := verifAnd(d >= 'a', d <= 'f')
	isUp := verifAnd(d >= 'A', d <= 'F')
	verifAssume(verifOr(isDec, verifOr(isLow, isUp)))
	d = byte(verifConc(int(d))) // the solver enumerates the 22 digits; the chunk bytes stay symbolic
	val := verifIte(isDec, int(d-'0'), verifIte(isLow, int(d-'a')+10, int(d-'A')+10))
	var line []byte
	switch verifChoose("form", 3) {
	case 0:
		verifAssume(val > 0)
		line = []byte{d}
	case 1:
		verifAssume(val > 0)
		line = []byte{'0', d}
	case 2:
		verifAssume(val <= 4)
		line = []byte{'1', d}
		val += 16
	}
	n := verifConc(val)
	data := verifBytes("chunk", n)
	w := []byte("POST /c HTTP/1.1\r\nHost: h\r\nTransfer-Encoding: chunked\r\n\r\n")
	w = append(w, line...)
	w = append(w, '\r', '\n')
	w = append(w, data...)
	w = append(w, "\r\n0\r\n\r\n"...)
	w = append(w, "GET /next HTTP/1.1\r\nHost: n\r\n\r\n"...)
	// the reference
	br := bufio.NewReader(bytes.NewReader(append([]byte(nil), w...)))
	ref, err := http.ReadRequest(br)
	if err != nil {
		verifFail("reference-rejects-well-formed-message", "chunk-size")
		return
	}
	want := verifSnapshot(ref)
	verifAssertD(len(want.body) == n && verifEqBytes(want.body, data), "reference-body", "net/http")
	// nbio
	e := verifHTTPEngine()
	var seen []*verifSeenReq
	e.Handler = http.HandlerFunc(func(rw http.ResponseWriter, r *http.Request) {
		seen = append(seen, verifSnapshot(r))
	})
	conn := &verifNetConn{failAt: -1}
	p := NewParser(conn, e, NewServerProcessor(), false, nil)
	perr := p.Parse(append([]byte(nil), w...))
	verifAssertD(perr == nil, "well-formed-message-accepted", "chunk-size")
	verifAssertD(len(seen) == 2, "message-count", "chunk-size")
	if len(seen) >= 1 {
		verifAssertD(len(seen[0].body) == len(want.body) && verifEqBytes(seen[0].body, want.body), "body-bytes", "chunk-size")
	}
	if len(seen) == 2 {
		verifAssertD(seen[1].uri == "/next", "successor-parsed-from-message-boundary", "chunk-size")
	}
	verifAssert(false, "witness")
}

// the header MULTImap: one header sent twice with its name in any mix of
// upper and lower case and two values — nbio and the interpreted
// net/http.ReadRequest must file both values, in order, under the same
// canonical key; a third header with a different name stays separate.
func verifHarness_C07_request_repeated_header_any_case() {
	mkName := func(tag string) []byte {
		name := []byte("x-ab")
		for _, i := range []int{0, 2, 3} {
			if verifBool(tag) {
				name[i] -= 0x20
			}
		}
		return name
	}
	n1, n2 := mkName("upper1"), mkName("upper2")
	v := verifBytes("value", 2)
	verifAssume(verifAnd(verifVisible(v[0]), verifVisible(v[1])))
	w := []byte("GET /m HTTP/1.1\r\nHost: h\r\n")
	w = append(w, n1...)
	w = append(w, ':', ' ', v[0], '\r', '\n')
	w = append(w, "X-Other: o\r\n"...)
	w = append(w, n2...)
	w = append(w, ':', v[1], '\r', '\n', '\r', '\n')
	br := bufio.NewReader(bytes.NewReader(append([]byte(nil), w...)))
	ref, err := http.ReadRequest(br)
	if err != nil {
		verifFail("reference-rejects-well-formed-message", "repeated-header")
		return
	}
	want := ref.Header["X-Ab"]
	verifAssertD(len(want) == 2 && want[0] == string(v[:1]) && want[1] == string(v[1:]), "reference-multimap", "net/http")
	e := verifHTTPEngine()
	var got http.Header
	handled := 0
	e.Handler = http.HandlerFunc(func(rw http.ResponseWriter, r *http.Request) {
		handled++
		got = r.Header.Clone()
	})
	conn := &verifNetConn{failAt: -1}
	p := NewParser(conn, e, NewServerProcessor(), false, nil)
	perr := p.Parse(append([]byte(nil), w...))
	verifAssertD(perr == nil && handled == 1, "well-formed-message-accepted", "repeated-header")
	if handled == 1 {
		g := got["X-Ab"]
		verifAssertD(len(g) == 2, "header-multimap", "both-values-under-canonical-key")
		if len(g) == 2 {
			verifAssertD(verifTrimOWS(g[0]) == string(v[:1]) && verifTrimOWS(g[1]) == string(v[1:]), "header-multimap", "values-in-order")
		}
		// net/http promotes Host to Request.Host and removes it from the map; nbio
		// fills Request.Host and keeps the key as well (representation difference)
		delete(got, "Host")
		verifAssertD(len(got["X-Other"]) == 1 && len(got) == len(ref.Header), "header-multimap", "count")
	}
	verifAssert(false, "witness")
}

// header lines with an EMPTY value ("Name:" and "Name: ") followed by another
// header, by a framing header, or ending the head — differential against the
// interpreted net/http.ReadRequest (header multimap, body, successor).
func verifHarness_C07_request_empty_header_value() {
	sp := ""
	if verifChoose("space_after_colon", 2) == 1 {
		sp = " "
	}
	v := verifBytes("value", 1)
	verifAssume(verifVisible(v[0]))
	body := verifBytes("body", 2)
	var w []byte
	form := verifChoose("form", 3)
	switch form {
	case 0: // followed by an ordinary header
		w = []byte("POST /e HTTP/1.1\r\nHost: h\r\nX-E:" + sp + "\r\nX-N: ")
		w = append(w, v[0])
		w = append(w, "\r\nContent-Length: 2\r\n\r\n"...)
	case 1: // followed by the framing header
		w = []byte("POST /e HTTP/1.1\r\nHost: h\r\nX-N: ")
		w = append(w, v[0])
		w = append(w, ("\r\nX-E:" + sp + "\r\nContent-Length: 2\r\n\r\n")...)
	case 2: // last header of the head
		w = []byte("POST /e HTTP/1.1\r\nHost: h\r\nContent-Length: 2\r\nX-N: ")
		w = append(w, v[0])
		w = append(w, ("\r\nX-E:" + sp + "\r\n\r\n")...)
	}
	w = append(w, body...)
	w = append(w, "GET /next HTTP/1.1\r\nHost: n\r\nX-First: f\r\n\r\n"...)
	br := bufio.NewReader(bytes.NewReader(append([]byte(nil), w...)))
	ref, err := http.ReadRequest(br)
	if err != nil {
		verifFail("reference-rejects-well-formed-message", "empty-header-value")
		return
	}
	want := verifSnapshot(ref)
	verifAssertD(len(want.header["X-E"]) == 1 && want.header["X-E"][0] == "" && len(want.header["X-N"]) == 1, "reference-multimap", "net/http")
	e := verifHTTPEngine()
	var seen []*verifSeenReq
	e.Handler = http.HandlerFunc(func(rw http.ResponseWriter, r *http.Request) {
		s := verifSnapshot(r)
		s.header = r.Header.Clone()
		seen = append(seen, s)
	})
	p := NewParser(&verifNetConn{failAt: -1}, e, NewServerProcessor(), false, nil)
	perr := p.Parse(append([]byte(nil), w...))
	verifAssertD(perr == nil, "well-formed-message-accepted", "empty-header-value")
	verifAssertD(len(seen) == 2, "message-count", "empty-header-value")
	if len(seen) >= 1 {
		g := seen[0]
		verifAssertD(len(g.header["X-E"]) == 1 && verifTrimOWS(g.header["X-E"][0]) == "", "header-multimap", "empty-value-kept-empty")
		verifAssertD(len(g.header["X-N"]) == 1 && verifTrimOWS(g.header["X-N"][0]) == string(v), "header-multimap", "neighbour-of-empty-value")
		verifAssertD(len(g.body) == 2 && verifEqBytes(g.body, body), "body-bytes", "empty-header-value")
	}
	if len(seen) == 2 {
		verifAssertD(seen[1].uri == "/next" && len(seen[1].header["X-First"]) == 1 && seen[1].header["X-First"][0] == "f", "successor-parsed-from-message-boundary", "empty-header-value")
	}
	verifAssert(false, "witness")
}

// trailer values with inner spaces and empty trailer values, and a Connection
// header that is a token list — differential against net/http.
func verifHarness_C07_request_trailer_values_and_connection_tokens() {
	tv := []string{"tv", "hello world", "a  b c", ""}[verifChoose("trailer_value", 4)]
	connHdr := []string{"", "close", "keep-alive, close", "close, TE", "Keep-Alive", "TE, keep-alive"}[verifChoose("connection", 6)]
	minor := verifChoose("minor", 2)
	w := []byte("POST /t HTTP/1." + string(rune('0'+minor)) + "\r\nHost: h\r\n")
	if connHdr != "" {
		w = append(w, ("Connection: " + connHdr + "\r\n")...)
	}
	w = append(w, "Transfer-Encoding: chunked\r\nTrailer: X-T\r\n\r\n1\r\nz\r\n0\r\n"...)
	w = append(w, ("X-T: " + tv + "\r\n\r\n")...)
	if minor == 0 {
		// (net/http ignores Transfer-Encoding in HTTP/1.0 requests: outside the agreement subset)
		return
	}
	br := bufio.NewReader(bytes.NewReader(append([]byte(nil), w...)))
	ref, err := http.ReadRequest(br)
	if err != nil {
		verifFail("reference-rejects-well-formed-message", "trailer-values")
		return
	}
	want := verifSnapshot(ref)
	e := verifHTTPEngine()
	var seen []*verifSeenReq
	e.Handler = http.HandlerFunc(func(rw http.ResponseWriter, r *http.Request) {
		seen = append(seen, verifSnapshot(r))
	})
	p := NewParser(&verifNetConn{failAt: -1}, e, NewServerProcessor(), false, nil)
	perr := p.Parse(append([]byte(nil), w...))
	verifAssertD(perr == nil, "well-formed-message-accepted", "trailer-values")
	verifAssertD(len(seen) == 1, "message-count", "trailer-values")
	if len(seen) == 1 {
		g := seen[0]
		gt, wt := g.trailer["X-T"], want.trailer["X-T"]
		verifAssertD(len(wt) == 1 && wt[0] == tv, "reference-trailer", "net/http")
		verifAssertD(len(gt) == 1 && verifTrimOWS(gt[0]) == tv, "trailer", "value-with-spaces-or-empty")
		verifAssertD(g.close == want.close, "connection-close-decision", "token-list")
	}
	verifAssert(false, "witness")
}

package nbhttp

import (
	"errors"
	"io"
	"net"
	"net/http"
)

// C08 — robustness and bounds on arbitrary input.

// verifC08Robust: arbitrary bytes from a parser state (C06 templates), one
// piece and every cut; symbolic ReadLimit.
func verifC08Robust(t verifTemplate, W int) {
	e := verifHTTPEngine()
	rl := verifInt("read_limit", 0, 12)
	e.ReadLimit = rl
	stream := append([]byte(t.pre), verifBytes("w", W)...)
	stream = append(stream, t.post...)
	rec := &verifRecorder{}
	p := NewParser(&verifNetConn{failAt: -1}, e, rec, t.client, nil)
	cut := verifConc(verifInt("cut", 1, len(stream)))
	pieces := [][]byte{stream[:cut], stream[cut:]}
	var err error
	panics0 := verifPanicCount()
	maxRead := 0
	for _, pc := range pieces {
		if len(pc) == 0 {
			continue
		}
		buf := append([]byte(nil), pc...)
		verifStepBudget(400000)
		err = p.Parse(buf)
		verifStepBudgetEnd()
		cached := 0
		if p.bytesCached != nil {
			cached = len(*p.bytesCached)
		}
		if len(pc) > maxRead {
			maxRead = len(pc)
		}
		if err != nil {
			break
		}
		verifAssertD(verifOr(rl == 0, cached <= rl+maxRead), "retained-bytes-within-read-limit-plus-one-read", t.name)
	}
	verifAssertD(verifPanicCount() == panics0, "no-panic-inside-parse", t.name)
	if err != nil {
		verifReach("rejected")
		// what Engine.DataHandler does on a parse error: the connection is closed
		n := len(rec.log)
		p.CloseAndClean(err)
		err2 := p.Parse([]byte("GET / HTTP/1.1\r\n\r\n"))
		verifAssertD(errors.Is(err2, net.ErrClosed), "parse-after-error-reports-closed", t.name)
		verifAssertD(len(rec.log) == n, "nothing-reported-after-error", t.name)
	} else {
		verifReach("accepted")
	}
}

func verifC08RobustHarness(i, W int) {
	verifBound("window_bytes", W)
	verifC08Robust(verifC06Templates[i], W)
	verifAssert(false, "witness")
}

func verifHarness_C08_robust_t00_Q() { verifC08RobustHarness(0, 3) }
func verifHarness_C08_robust_t04_Q() { verifC08RobustHarness(4, 2) }
func verifHarness_C08_robust_t05_Q() { verifC08RobustHarness(5, 3) }
func verifHarness_C08_robust_t07_Q() { verifC08RobustHarness(7, 2) }
func verifHarness_C08_robust_t10_Q() { verifC08RobustHarness(10, 2) }
func verifHarness_C08_robust_t11_Q() { verifC08RobustHarness(11, 2) }
func verifHarness_C08_robust_t12_Q() { verifC08RobustHarness(12, 3) }
func verifHarness_C08_robust_t15_Q() { verifC08RobustHarness(15, 2) }
func verifHarness_C08_robust_t18_Q() { verifC08RobustHarness(18, 3) }

// thorough: every template of C06's list
func verifHarness_C08_robust_t00_method_T() { verifC08RobustHarness(0, 3) }
func verifHarness_C08_robust_t01_path_T() { verifC08RobustHarness(1, 3) }
func verifHarness_C08_robust_t02_proto_T() { verifC08RobustHarness(2, 3) }
func verifHarness_C08_robust_t03_request_line_end_T() { verifC08RobustHarness(3, 3) }
func verifHarness_C08_robust_t04_header_key_T() { verifC08RobustHarness(4, 3) }
func verifHarness_C08_robust_t05_header_value_T() { verifC08RobustHarness(5, 3) }
func verifHarness_C08_robust_t06_header_line_end_T() { verifC08RobustHarness(6, 3) }
func verifHarness_C08_robust_t07_content_length_value_T() { verifC08RobustHarness(7, 2) }
func verifHarness_C08_robust_t08_body_then_pipelined_T() { verifC08RobustHarness(8, 3) }
func verifHarness_C08_robust_t09_transfer_encoding_value_T() { verifC08RobustHarness(9, 3) }
func verifHarness_C08_robust_t10_chunk_size_T() { verifC08RobustHarness(10, 3) }
func verifHarness_C08_robust_t11_chunk_ext_T() { verifC08RobustHarness(11, 3) }
func verifHarness_C08_robust_t12_chunk_data_end_T() { verifC08RobustHarness(12, 3) }
func verifHarness_C08_robust_t13_last_chunk_end_T() { verifC08RobustHarness(13, 3) }
func verifHarness_C08_robust_t14_trailer_declaration_T() { verifC08RobustHarness(14, 3) }
func verifHarness_C08_robust_t15_trailer_key_T() { verifC08RobustHarness(15, 3) }
func verifHarness_C08_robust_t16_trailer_value_T() { verifC08RobustHarness(16, 3) }
func verifHarness_C08_robust_t17_client_proto_T() { verifC08RobustHarness(17, 3) }
func verifHarness_C08_robust_t18_client_status_code_T() { verifC08RobustHarness(18, 3) }
func verifHarness_C08_robust_t19_client_status_text_T() { verifC08RobustHarness(19, 3) }

// ---- framing metadata with the real ServerProcessor

type verifSeen struct {
	reqs   int
	cl     int64
	te     []string
	body   []byte
	method string
	close  bool
}

func verifServerFeed(e *Engine, stream []byte) (*verifSeen, error, *verifNetConn) {
	seen := &verifSeen{}
	e.emptyRequest = &http.Request{}
	e.Handler = http.HandlerFunc(func(w http.ResponseWriter, r *http.Request) {
		seen.reqs++
		seen.cl = r.ContentLength
		seen.te = r.TransferEncoding
		seen.method = r.Method
		seen.close = r.Close
		if r.Body != nil {
			buf := make([]byte, 64)
			for {
				n, err := r.Body.Read(buf)
				seen.body = append(seen.body, buf[:n]...)
				if err != nil || n == 0 {
					break
				}
			}
		}
	})
	conn := &verifNetConn{failAt: -1}
	p := NewParser(conn, e, NewServerProcessor(), false, nil)
	panics0 := verifPanicCount()
	verifStepBudget(600000)
	err := p.Parse(append([]byte(nil), stream...))
	verifStepBudgetEnd()
	verifAssertD(verifPanicCount() == panics0, "no-panic-inside-parse", "server-feed")
	return seen, err, conn
}

func verifNoCRLF(b []byte) {
	for _, c := range b {
		verifAssume(verifAnd(c != '\r', c != '\n'))
	}
}

func verifIsDigit(c byte) bool { return verifAnd(c >= '0', c <= '9') }

// "Content-Length: <4 symbolic bytes>": acceptance implies 1*DIGIT modulo
// optional spaces, and the value handed on equals the decimal value.
func verifHarness_C08_content_length_value() {
	e := verifHTTPEngine()
	v := verifBytes("cl", 4)
	verifNoCRLF(v)
	stream := append([]byte("POST / HTTP/1.1\r\nContent-Length: "), v...)
	stream = append(stream, "\r\n\r\n0123456789"...)
	seen, err, _ := verifServerFeed(e, stream)
	// reference: spaces* DIGIT+ spaces*
	valid := false
	value := 0
	empty := true
	for i := range v {
		empty = verifAnd(empty, v[i] == ' ')
	}
	for l := 0; l < 4; l++ {
		for t := 0; l+t < 4; t++ {
			ok := true
			for i := 0; i < l; i++ {
				ok = verifAnd(ok, v[i] == ' ')
			}
			for i := 4 - t; i < 4; i++ {
				ok = verifAnd(ok, v[i] == ' ')
			}
			val := 0
			for i := l; i < 4-t; i++ {
				ok = verifAnd(ok, verifIsDigit(v[i]))
				val = val*10 + int(v[i]-'0')
			}
			valid = verifOr(valid, ok)
			value = verifIte(ok, val, value)
		}
	}
	accepted := err == nil
	verifAssertD(verifImplies(verifAnd(accepted, !empty), valid), "non-numeric-content-length-rejected", "")
	if accepted && seen.reqs > 0 {
		verifReach("accepted")
		verifAssertD(verifImplies(valid, int(seen.cl) == value), "content-length-value", "")
		verifAssertD(verifImplies(valid, len(seen.body) == value), "body-has-declared-length", "")
	}
	verifAssert(false, "witness")
}

// "Transfer-Encoding: <7 symbolic bytes>": acceptance implies "chunked"
// (case-insensitively); a repeated Transfer-Encoding is rejected.
func verifHarness_C08_transfer_encoding_value() {
	e := verifHTTPEngine()
	want := "chunked"
	v := []byte(want)
	pos := []int{0, 2, 5}[verifChoose("pos", 3)]
	sym := verifBytes("te", 2)
	verifNoCRLF(sym)
	v[pos], v[pos+1] = sym[0], sym[1]
	repeated := verifChoose("repeated", 2) == 1
	stream := append([]byte("POST / HTTP/1.1\r\nTransfer-Encoding: "), v...)
	stream = append(stream, "\r\n"...)
	if repeated {
		stream = append(stream, "Transfer-Encoding: chunked\r\n"...)
	}
	stream = append(stream, "\r\n0\r\n\r\n"...)
	_, err, _ := verifServerFeed(e, stream)
	is := true
	for i := 0; i < 7; i++ {
		is = verifAnd(is, verifOr(v[i] == want[i], v[i] == want[i]-32))
	}
	accepted := err == nil
	verifAssertD(verifImplies(accepted, is), "unsupported-transfer-encoding-rejected", "")
	if repeated {
		verifAssertD(!accepted, "repeated-transfer-encoding-rejected", "")
	}
	if accepted {
		verifReach("accepted")
	}
	verifAssert(false, "witness")
}

func verifIsHexByte(c byte) bool {
	return verifOr(verifIsDigit(c), verifOr(verifAnd(c >= 'a', c <= 'f'), verifAnd(c >= 'A', c <= 'F')))
}

// chunk-size line "<3 symbolic bytes>": acceptance implies HEXDIG+ followed by
// nothing, or by a chunk extension introduced by ';' (optionally after spaces)
func verifHarness_C08_chunk_size_line() {
	e := verifHTTPEngine()
	v := verifBytes("cs", 3)
	verifNoCRLF(v)
	stream := append([]byte("POST / HTTP/1.1\r\nTransfer-Encoding: chunked\r\n\r\n"), v...)
	stream = append(stream, "\r\n0123456789abcdef\r\n0\r\n\r\n"...)
	_, err, _ := verifServerFeed(e, stream)
	// reference: the size token is the leading run of alphanumeric characters;
	// it must be non-empty and consist of hex digits only (what follows it is
	// a chunk extension, whose syntax this property does not constrain)
	isAlnum := func(c byte) bool {
		return verifOr(verifIsDigit(c), verifOr(verifAnd(c >= 'a', c <= 'z'), verifAnd(c >= 'A', c <= 'Z')))
	}
	valid := verifIsHexByte(v[0])
	run := true
	for i := 0; i < 3; i++ {
		run = verifAnd(run, isAlnum(v[i]))
		valid = verifAnd(valid, verifImplies(run, verifIsHexByte(v[i])))
	}
	accepted := err == nil
	verifAssertD(verifImplies(accepted, valid), "malformed-chunk-size-line-rejected", "")
	if accepted {
		verifReach("accepted")
	}
	verifAssert(false, "witness")
}

// chunk size overflow: 17+ hex digits never accepted as a small number
func verifHarness_C08_chunk_size_overflow() {
	e := verifHTTPEngine()
	d := verifByte("lead")
	verifAssume(verifAnd(verifIsHexByte(d), d != '0'))
	stream := append([]byte("POST / HTTP/1.1\r\nTransfer-Encoding: chunked\r\n\r\n"), d)
	stream = append(stream, "0000000000000000\r\nabc\r\n0\r\n\r\n"...)
	seen, err, _ := verifServerFeed(e, stream)
	verifAssertD(err != nil && seen.reqs == 0, "overflowing-chunk-size-rejected", "")
	verifAssert(false, "witness")
}

// line terminators: the two bytes ending each kind of line must be CR LF
func verifHarness_C08_line_terminators() {
	e := verifHTTPEngine()
	t := verifBytes("eol", 2)
	var stream []byte
	which := verifChoose("line", 5)
	parts := []string{"POST / HTTP/1.1", "\r\nTransfer-Encoding: chunked", "\r\n", "\r\n3", "\r\nabc", "\r\n0\r\n\r\n"}
	// replace the CRLF at the start of parts[which+1] by the symbolic bytes
	for i, s := range parts {
		if i == which+1 {
			stream = append(stream, t...)
			stream = append(stream, s[2:]...)
		} else {
			stream = append(stream, s...)
		}
	}
	seen, err, _ := verifServerFeed(e, stream)
	isCRLF := verifAnd(t[0] == '\r', t[1] == '\n')
	if err == nil && seen.reqs == 1 {
		verifReach("accepted")
		verifAssertD(isCRLF, "missing-cr-or-lf-rejected", "")
	}
	verifAssertD(verifImplies(isCRLF, err == nil), "well-formed-message-accepted", "")
	verifAssert(false, "witness")
}

// body never exceeds MaxHTTPBodySize
func verifHarness_C08_max_body_size() {
	e := verifHTTPEngine()
	max := verifInt("max_body", 1, 8)
	e.MaxHTTPBodySize = max
	chunked := verifChoose("chunked", 2) == 1
	n1 := 1 + verifChoose("n1", 5)
	n2 := verifChoose("n2", 5)
	var stream []byte
	if chunked {
		stream = append(stream, "POST / HTTP/1.1\r\nTransfer-Encoding: chunked\r\n\r\n"...)
		stream = append(stream, byte('0'+n1), '\r', '\n')
		stream = append(stream, verifBytes("c1", n1)...)
		stream = append(stream, '\r', '\n')
		if n2 > 0 {
			stream = append(stream, byte('0'+n2), '\r', '\n')
			stream = append(stream, verifBytes("c2", n2)...)
			stream = append(stream, '\r', '\n')
		}
		stream = append(stream, "0\r\n\r\n"...)
	} else {
		stream = append(stream, "POST / HTTP/1.1\r\nContent-Length: "...)
		stream = append(stream, byte('0'+n1+n2), '\r', '\n', '\r', '\n')
		stream = append(stream, verifBytes("b", n1+n2)...)
	}
	seen, err, _ := verifServerFeed(e, stream)
	total := n1 + n2
	verifAssertD(verifImplies(total > max, err != nil && seen.reqs == 0), "oversized-body-rejected", "")
	verifAssertD(verifImplies(total <= max, err == nil && seen.reqs == 1 && len(seen.body) == total), "fitting-body-accepted", "")
	verifAssert(false, "witness")
}

var _ = io.EOF


// numeric framing fields over their whole range: 19 symbolic decimal digits
// (Content-Length) / 16 symbolic hex digits (chunk size) with body bytes in
// the same read, so that offset+length arithmetic near 2^63 is in scope
func verifHarness_C08_content_length_near_limits() {
	e := verifHTTPEngine()
	// the last 4 of 19 decimal digits are symbolic: the values straddle 2^63
	// (9223372036854775808) and include every value within 10^4 of it, so that
	// offset+length arithmetic that wraps around is in scope; a second family
	// has a short all-symbolic value (covered by content_length_value)
	prefix := []string{"922337203685477", "92233720368547", "184467440737095"}[verifChoose("prefix", 3)]
	d := verifBytes("cl", 19-len(prefix)+verifChoose("extra_digit", 2))
	for _, c := range d {
		verifAssume(verifIsDigit(c))
	}
	stream := append([]byte("POST / HTTP/1.1\r\nContent-Length: "+prefix), d...)
	stream = append(stream, "\r\n\r\nabc"...)
	if verifChoose("pipelined", 2) == 1 {
		stream = append(stream, "GET / HTTP/1.1\r\n\r\n"...)
	}
	seen, err, _ := verifServerFeed(e, stream)
	// the body cannot be complete: nothing may be delivered, whatever the value
	verifAssertD(seen.reqs == 0, "incomplete-body-delivers-nothing", "")
	if err != nil {
		verifReach("rejected")
	} else {
		verifReach("waiting-for-body")
	}
	verifAssert(false, "witness")
}

func verifHarness_C08_chunk_size_near_limits() {
	e := verifHTTPEngine()
	prefix := []string{"7ffffffffffff", "3ffffffffffff", "ffffffffffff"}[verifChoose("prefix", 3)]
	d := verifBytes("cs", 3+verifChoose("extra_digit", 2))
	for _, c := range d {
		verifAssume(verifIsHexByte(c))
	}
	stream := append([]byte("POST / HTTP/1.1\r\nTransfer-Encoding: chunked\r\n\r\n"+prefix), d...)
	stream = append(stream, "\r\nabc\r\n0\r\n\r\n"...)
	seen, _, _ := verifServerFeed(e, stream)
	verifAssertD(seen.reqs == 0, "incomplete-chunk-delivers-nothing", "")
	verifAssert(false, "witness")
}

// an incomplete body (Content-Length or chunk data) arriving in many small
// reads: what the parser retains stays within ReadLimit plus one read, so a
// body larger than the limit must be refused before it has been buffered.
func verifHarness_C08_read_limit_incomplete_body_small_reads() {
	verifBound("body_declared", 40)
	e := verifHTTPEngine()
	rl := verifInt("read_limit", 16, 24)
	e.ReadLimit = rl
	var head string
	if verifChoose("framing", 2) == 0 {
		head = "POST / HTTP/1.1\r\nContent-Length: 40\r\n\r\n"
	} else {
		head = "POST / HTTP/1.1\r\nTransfer-Encoding: chunked\r\n\r\n28\r\n"
	}
	stream := []byte(head)
	for i := 0; i < 40; i++ {
		stream = append(stream, 'x')
	}
	rec := &verifRecorder{}
	p := NewParser(&verifNetConn{failAt: -1}, e, rec, false, nil)
	step := 1 + verifChoose("read_size", 3)
	var err error
	maxRead := 0
	for pos := 0; pos < len(stream) && err == nil; pos += step {
		end := pos + step
		if end > len(stream) {
			end = len(stream)
		}
		err = p.Parse(append([]byte(nil), stream[pos:end]...))
		if end-pos > maxRead {
			maxRead = end - pos
		}
		cached := 0
		if p.bytesCached != nil {
			cached = len(*p.bytesCached)
		}
		if err == nil {
			verifAssertD(cached <= rl+maxRead, "retained-bytes-within-read-limit-plus-one-read", "incomplete-body")
		}
	}
	// 40 body bytes cannot be retained within a limit of at most 24 (+3)
	verifAssertD(err != nil, "body-beyond-read-limit-refused", "")
	if err != nil {
		verifReach("refused")
	}
	verifAssert(false, "witness")
}

// framing metadata that must be refused rather than guessed at: junk between
// a framing header's name and its colon, two different Content-Length values,
// a bare LF or stray bytes in a status line.
func verifHarness_C08_framing_metadata_not_guessed() {
	e := verifHTTPEngine()
	junk := verifByte("junk")
	// (blanks alone between name and colon are tolerated — the repository's own
	// parser tests contain such lines — so the junk is a letter or a tab)
	verifAssume(verifOr(junk == '\t', verifAnd(junk >= 'a', junk <= 'z')))
	client := false
	var w []byte
	name := ""
	switch verifChoose("form", 8) {
	case 6: // a chunk-size line ended by a bare LF
		name = "bare-lf-ends-chunk-size-line"
		w = []byte("POST / HTTP/1.1\r\nTransfer-Encoding: chunked\r\n\r\n3\nabc\r\n0\r\n\r\n")
	case 7: // a bare LF inside a chunk extension
		name = "bare-lf-in-chunk-extension"
		w = []byte("POST / HTTP/1.1\r\nTransfer-Encoding: chunked\r\n\r\n3;x\ny\r\nabc\r\n0\r\n\r\n")
	case 0: // "Content-Length <junk>: 3"
		name = "junk-between-name-and-colon/content-length"
		w = []byte("POST / HTTP/1.1\r\nContent-Length ")
		w = append(w, junk, ':', ' ', '3', '\r', '\n', '\r', '\n', 'a', 'b', 'c')
	case 1: // "Transfer-Encoding <junk>: chunked"
		name = "junk-between-name-and-colon/transfer-encoding"
		w = []byte("POST / HTTP/1.1\r\nTransfer-Encoding ")
		w = append(w, junk, ':', ' ')
		w = append(w, "chunked\r\n\r\n0\r\n\r\n"...)
	case 2: // two Content-Length headers that disagree
		name = "two-different-content-lengths"
		d := verifByte("second_length")
		verifAssume(verifAnd(d >= '0', d <= '9'))
		verifAssume(d != '3')
		w = []byte("POST / HTTP/1.1\r\nContent-Length: 3\r\nContent-Length: ")
		w = append(w, d)
		w = append(w, "\r\n\r\nabcdefghij"...)
	case 3: // bare LF ends the status line (client)
		client = true
		name = "bare-lf-in-status-line"
		w = []byte("HTTP/1.1 200 OK\nContent-Length: 2\r\n\r\nab")
	case 4: // stray bytes before the status code (client)
		client = true
		name = "junk-before-status-code"
		w = []byte("HTTP/1.1 ")
		w = append(w, junk, junk)
		w = append(w, "200 OK\r\nContent-Length: 0\r\n\r\n"...)
	case 5: // bare LF inside a trailer value
		name = "bare-lf-in-trailer-value"
		w = []byte("POST / HTTP/1.1\r\nTransfer-Encoding: chunked\r\nTrailer: X\r\n\r\n0\r\nX: a\nb\r\n\r\n")
	}
	rec := &verifRecorder{}
	p := NewParser(&verifNetConn{failAt: -1}, e, rec, client, nil)
	err := p.Parse(append([]byte(nil), w...))
	verifAssertD(err != nil, "malformed-framing-metadata-rejected", name)
	verifAssertD(rec.completed == 0, "nothing-completed-from-malformed-framing", name)
	verifAssert(false, "witness")
}

// nothing further after an error, even when the caller keeps feeding the
// parser instead of closing it (the blocking-mode reader does): a request whose
// head ends in CR + junk, then the bytes that would have completed it.
func verifHarness_C08_nothing_after_error_without_close() {
	e := verifHTTPEngine()
	rec := &verifRecorder{}
	p := NewParser(&verifNetConn{failAt: -1}, e, rec, false, nil)
	junk := verifByte("junk")
	verifAssume(junk != '\n')
	err := p.Parse(append([]byte("GET / HTTP/1.1\r\nHost: a\r\n\r"), junk))
	verifAssertD(err != nil, "malformed-framing-metadata-rejected", "cr-without-lf")
	n, completed := len(rec.log), rec.completed
	more := [][]byte{[]byte("\n"), []byte("\r\n\r\n"), []byte("GET /x HTTP/1.1\r\nHost: b\r\n\r\n")}[verifChoose("then", 3)]
	_ = p.Parse(more)
	verifAssertD(len(rec.log) == n && rec.completed == completed, "nothing-reported-after-error", "caller-did-not-close")
	verifAssert(false, "witness")
}

package PKG

// Harness API. Under the symbolic engine (gosym) calls to these functions are
// intercepted by name and the bodies below are never executed. Compiled
// natively (replay of a counterexample) the bodies feed the recorded values
// of the solver's model back into the same harness code.

import (
	"encoding/json"
	"fmt"
	"os"
	"runtime"
	"strings"
	"sync"
	"unsafe"

	"github.com/lesismal/nbio/logging"
)

type verifInputRec struct {
	Tag   string `json:"tag"`
	Name  string `json:"name"`
	W     int    `json:"w"`
	Value uint64 `json:"value"`
}

type verifCexRec struct {
	Label   string          `json:"label"`
	Discr   string          `json:"discr"`
	Harness string          `json:"harness"`
	Inputs  []verifInputRec `json:"inputs"`
	Tier    int             `json:"tier"`
}

var (
	verifCex      verifCexRec
	verifPos      int
	verifLoaded   bool
	verifFailures []string
	verifMu       sync.Mutex
	verifPoisoned = map[uintptr]bool{}
	verifDiverged bool
)

func verifLoadCex() {
	if verifLoaded {
		return
	}
	verifLoaded = true
	p := os.Getenv("VERIF_CEX")
	if p == "" {
		return
	}
	b, err := os.ReadFile(p)
	if err != nil {
		panic("verif: cannot read cex: " + err.Error())
	}
	if err := json.Unmarshal(b, &verifCex); err != nil {
		panic("verif: bad cex: " + err.Error())
	}
}

// random mode (selftest): values are drawn from a seeded generator instead of a
// recorded counterexample
var (
	verifRandom     bool
	verifRandState  uint64 = 88172645463325252
	verifRandBounds        = map[string][2]int{}
)

func verifRand() uint64 {
	verifRandState ^= verifRandState << 13
	verifRandState ^= verifRandState >> 7
	verifRandState ^= verifRandState << 17
	return verifRandState
}

func verifNext(tag string) uint64 {
	if verifRandom {
		return verifRand()
	}
	verifLoadCex()
	verifMu.Lock()
	defer verifMu.Unlock()
	if verifPos >= len(verifCex.Inputs) {
		// inputs created after the point of violation are unconstrained
		return 0
	}
	in := verifCex.Inputs[verifPos]
	verifPos++
	if in.Tag != tag && !(len(in.Tag) > len(tag) && in.Tag[:len(tag)] == tag) {
		verifDiverged = true
		fmt.Printf("VERIF-DIVERGED want tag %q got %q at input %d\n", tag, in.Tag, verifPos-1)
	}
	return in.Value
}

func verifByte(tag string) byte {
	if verifRandom {
		// biased towards printable ASCII so that assumptions are often met
		r := verifRand()
		const alnum = "abcdefghijklmnopqrstuvwxyzABCDEFGHIJKLMNOPQRSTUVWXYZ0123456789-"
		switch r % 10 {
		case 0:
			return byte(0x21 + (r>>8)%0x5e)
		case 1:
			return byte(r >> 8)
		}
		return alnum[(r>>8)%uint64(len(alnum))]
	}
	return byte(verifNext(tag))
}
func verifU16(tag string) uint16 { return uint16(verifNext(tag)) }
func verifU32(tag string) uint32 { return uint32(verifNext(tag)) }
func verifU64(tag string) uint64 { return verifNext(tag) }
func verifBool(tag string) bool  { return verifNext(tag) != 0 }
func verifInt(tag string, lo, hi int) int {
	if verifRandom {
		return lo + int(verifRand()%uint64(hi-lo+1))
	}
	v := int(int64(verifNext(tag)))
	if v < lo || v > hi {
		if verifPos > len(verifCex.Inputs) || os.Getenv("VERIF_CEX") == "" {
			return lo
		}
	}
	return v
}
func verifChoose(tag string, n int) int {
	if verifRandom {
		return int(verifRand() % uint64(n))
	}
	return int(verifNext(tag))
}
func verifConc(x int) int               { return x }
func verifBytes(tag string, n int) []byte {
	b := make([]byte, n)
	for i := range b {
		if verifRandom {
			b[i] = verifByte(tag)
			continue
		}
		b[i] = byte(verifNext(fmt.Sprintf("%s_%d", tag, i)))
	}
	return b
}

type verifAssumeFailed struct{}

func verifAssume(c bool) {
	if !c {
		panic(verifAssumeFailed{})
	}
}

func verifAssert(c bool, label string) { verifAssertD(c, label, "") }
func verifAssertD(c bool, label, discr string) {
	if !c {
		verifMu.Lock()
		verifFailures = append(verifFailures, label+"|"+discr)
		verifMu.Unlock()
		fmt.Printf("VERIF-ASSERT-FAILED %s|%s\n", label, discr)
	}
}
func verifFail(label, discr string)     { verifAssertD(false, label, discr) }
func verifReach(label string)           {}
func verifBound(name string, v int)     {}
func verifNote(s string)                { fmt.Println("VERIF-NOTE", s) }
func verifNoteInt(s string, v int)      { fmt.Println("VERIF-NOTE", s, v) }
func verifTier() int                    { verifLoadCex(); return verifCex.Tier }
func verifIsSymbolic(x int) bool        { return false }
func verifPanicCount() int              { return verifNativePanics }
func verifLastPanic() string            { return "" }
func verifPoolMode(m int)               {}
func verifMapRotate(k int)              {}
func verifStepBudget(n int)             {}
func verifSteps() int                   { return 0 }
func verifIte(c bool, a, b int) int     { if c { return a }; return b }
func verifAnd(a, b bool) bool           { return a && b }
func verifOr(a, b bool) bool            { return a || b }
func verifImplies(a, b bool) bool       { return !a || b }
func verifEqString(a, b string) bool    { return a == b }
func verifEqBytes(a, b []byte) bool {
	if len(a) != len(b) {
		return false
	}
	for i := range a {
		if a[i] != b[i] {
			return false
		}
	}
	return true
}

var verifNativePanics int

// natively a panic recovered inside the library is observed through the error
// log line its recover block writes ("... failed: <panic>")
type verifLogCounter struct{}

func (verifLogCounter) SetLevel(lvl int)                        {}
func (verifLogCounter) Debug(format string, v ...interface{})   {}
func (verifLogCounter) Info(format string, v ...interface{})    {}
func (verifLogCounter) Warn(format string, v ...interface{})    {}
func (verifLogCounter) Error(format string, v ...interface{}) {
	if strings.Contains(format, "failed") {
		verifMu.Lock()
		verifNativePanics++
		verifMu.Unlock()
	}
}

func init() { logging.SetLogger(verifLogCounter{}) }

func verifBufKey(b []byte) uintptr {
	if cap(b) == 0 {
		return 0
	}
	return uintptr(unsafe.Pointer(&b[:1][0]))
}

func verifPoison(b []byte) {
	k := verifBufKey(b)
	if k == 0 {
		return
	}
	verifMu.Lock()
	dbl := verifPoisoned[k]
	verifPoisoned[k] = true
	verifMu.Unlock()
	if dbl {
		verifAssertD(false, "double-free", "")
	}
	b = b[:cap(b)]
	for i := range b {
		b[i] = 0xDD
	}
}
func verifUnpoison(b []byte) {
	k := verifBufKey(b)
	verifMu.Lock()
	delete(verifPoisoned, k)
	verifMu.Unlock()
}
func verifIsPoisoned(b []byte) bool {
	verifMu.Lock()
	defer verifMu.Unlock()
	return verifPoisoned[verifBufKey(b)]
}
func verifBufID(b []byte) int  { return int(verifBufKey(b)) }
func verifBufOff(b []byte) int { return 0 }

// threads (native: real goroutines; schedules are not steered)
var verifWG sync.WaitGroup

func verifGo(f func()) {
	verifWG.Add(1)
	go func() { defer verifWG.Done(); f() }()
}
func verifYield()                      { runtime.Gosched() }
func verifSched(on bool, preempt int)  {}
func verifJoin() int                   { verifWG.Wait(); return 0 }
func verifBlockedOn() string           { return "" }
func verifAtomicBegin()                {}
func verifAtomicEnd()                  {}
func verifThreadID() int               { return 0 }
func verifBlockUntil(f func() bool) {
	for !f() {
		runtime.Gosched()
	}
}

// virtual clock (native replay of timer scenarios is interpreter-only)
func verifTimerCount() int          { return 0 }
func verifTimerArmed(i int) bool    { return false }
func verifTimerDeadline(i int) int64 { return 0 }
func verifFireTimer(i int) bool     { return false }
func verifNow() int64               { return 0 }
func verifAdvanceClock() int64      { return 0 }

// verifRunNative runs a harness natively and reports which assertions failed.
func verifRunNative(h func()) (failures []string, diverged bool, panicked interface{}) {
	defer func() {
		if r := recover(); r != nil {
			if _, ok := r.(verifAssumeFailed); ok {
				failures, diverged = verifFailures, true
				fmt.Println("VERIF-ASSUME-FAILED")
				return
			}
			panicked = r
			failures = verifFailures
		}
	}()
	h()
	return verifFailures, verifDiverged, nil
}

func verifNativeOverlap(a, b []byte) bool {
	if cap(a) == 0 || cap(b) == 0 {
		return false
	}
	as := uintptr(unsafe.Pointer(&a[:1][0]))
	bs := uintptr(unsafe.Pointer(&b[:1][0]))
	return as < bs+uintptr(cap(b)) && bs < as+uintptr(cap(a))
}

func verifStepBudgetEnd() {}

// verifCallerName names the nearest caller outside the harness/allocator.
func verifCallerName() string {
	for i := 1; i < 12; i++ {
		pc, _, _, ok := runtime.Caller(i)
		if !ok {
			break
		}
		f := runtime.FuncForPC(pc)
		if f == nil {
			continue
		}
		n := f.Name()
		if strings.Contains(n, "verif") || strings.Contains(n, "/mempool.") {
			continue
		}
		return shortFuncName(n)
	}
	return "?"
}

func shortFuncName(n string) string {
	if i := strings.LastIndex(n, "/"); i >= 0 {
		n = n[i+1:]
	}
	return strings.NewReplacer("(", "", ")", "", "*", "").Replace(n)
}

func verifRacyFields(names string) {}

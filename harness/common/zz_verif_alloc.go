package PKG

// Tracking allocator: wraps the real pooled allocator; Free poisons the
// buffer's backing array in the engine (any later read, write, reslice or
// append through any alias is trapped at the access), Malloc/Append
// un-poison what they hand out. sync.Pool runs in nondeterministic mode.

import "github.com/lesismal/nbio/mempool"

type verifTrackAlloc struct {
	inner   mempool.Allocator
	mallocs int
	frees   int
}

func verifNewTracker() *verifTrackAlloc {
	verifPoolMode(1)
	return &verifTrackAlloc{inner: mempool.New(64, 1<<20)}
}

func (a *verifTrackAlloc) adopt(p *[]byte) *[]byte {
	if p != nil {
		verifUnpoison((*p)[:cap(*p)])
	}
	return p
}

func (a *verifTrackAlloc) check(p *[]byte, op string) {
	if p != nil && verifIsPoisoned(*p) {
		verifFail("use-after-free", op+" in "+verifCallerName())
	}
}

func (a *verifTrackAlloc) Malloc(n int) *[]byte {
	a.mallocs++
	return a.adopt(a.inner.Malloc(n))
}

func (a *verifTrackAlloc) Realloc(p *[]byte, n int) *[]byte {
	a.check(p, "Realloc")
	return a.adopt(a.inner.Realloc(p, n))
}

func (a *verifTrackAlloc) Append(p *[]byte, more ...byte) *[]byte {
	a.check(p, "Append")
	return a.adopt(a.inner.Append(p, more...))
}

func (a *verifTrackAlloc) AppendString(p *[]byte, more string) *[]byte {
	a.check(p, "AppendString")
	return a.adopt(a.inner.AppendString(p, more))
}

func (a *verifTrackAlloc) Free(p *[]byte) {
	if p == nil || cap(*p) == 0 {
		return
	}
	if verifIsPoisoned(*p) {
		verifFail("double-free", "Free in "+verifCallerName())
		return
	}
	a.frees++
	a.inner.Free(p)
	verifPoison((*p)[:cap(*p)])
}

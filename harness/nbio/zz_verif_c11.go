package nbio

// C11 (core part) — write-queue buffers: taken on backlog, released on send,
// on close and on error, each exactly once.

func verifC11Conn(typ ConnType, steps int) {
	tr := verifNewTracker()
	w := verifUnitEngine(Config{BodyAllocator: tr})
	c, f := w.verifAddStream(typ)
	h := &verifC01{w: w, c: c, f: f, name: "c11"}
	vk.faults = 2
	for s := 0; s < steps && !c.closed; s++ {
		switch verifChoose("op", 4) {
		case 0:
			h.write(3)
		case 1:
			h.writev(2, 2)
		case 2:
			_ = c.flush()
		case 3:
			_ = c.Close()
		}
	}
	queued := 0
	for _, t := range c.writeList {
		if t != nil && t.buf != nil {
			queued++
			verifAssertD(!verifIsPoisoned(*t.buf), "queued-buffer-is-live", "")
		}
	}
	if !c.closed {
		_ = c.Close()
	}
	verifJoin()
	verifAssertD(tr.frees == tr.mallocs, "every-queued-buffer-released-exactly-once", "")
}

func verifHarness_C11_conn_tcp() {
	verifBound("ops", 3)
	verifC11Conn(ConnTypeTCP, 3)
	verifAssert(false, "witness")
}

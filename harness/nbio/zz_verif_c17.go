package nbio

import (
	"errors"

	"github.com/lesismal/nbio/mempool"
)

// C17 — write-buffer bound. Inductive step from an arbitrary pre-state that
// satisfies the representation invariant I, plus bounded histories from the
// initial state.

// verifInvariantI: left == sum of unsent bytes over queued buffer entries.
func verifInvariantI(c *Conn) bool {
	sum := 0
	for _, t := range c.writeList {
		if t == nil {
			return false
		}
		if t.buf != nil {
			if t.offset < 0 || int(t.offset) > len(*t.buf) {
				return false
			}
			sum += len(*t.buf) - int(t.offset)
		}
	}
	return c.left == sum
}

func verifC17Step(entriesMax int, op int) {
	w := verifUnitEngine(Config{BodyAllocator: mempool.New(2, 1<<20)})
	c, f := w.verifAddStream(ConnTypeTCP)
	g := w.g
	max := verifInt("max", 0, 12)
	g.MaxWriteBufferSize = max
	vk.faults = 2
	// arbitrary pre-state satisfying I
	nent := verifChoose("entries", entriesMax+1)
	sum := 0
	for i := 0; i < nent; i++ {
		l := 1 + verifChoose("len", 4)
		off := verifChoose("off", l)
		pb := g.BodyAllocator.Malloc(l)
		copy(*pb, verifBytes("queued", l))
		c.writeList = append(c.writeList, &toWrite{buf: pb, offset: int64(off)})
		sum += l - off
	}
	c.left = sum
	if nent > 0 {
		c.isWAdded = true
	}
	verifAssume(verifOr(max == 0, sum <= max))
	verifAssert(verifInvariantI(c), "pre-state-satisfies-I")
	left0 := c.left
	var n, size int
	var err error
	wire0 := len(f.wire)
	switch op {
	case 0:
		size = verifChoose("blen", 6)
		n, err = c.Write(verifBytes("b", size))
	case 1:
		bs := [][]byte{verifBytes("b0", verifChoose("b0len", 3)), verifBytes("b1", verifChoose("b1len", 3))}
		size = len(bs[0]) + len(bs[1])
		n, err = c.Writev(bs)
	case 2:
		err = c.flush()
	}
	closed := c.closed
	if !closed {
		verifAssertD(verifInvariantI(c), "I-preserved", "")
		verifAssertD(verifOr(max == 0, c.left <= max), "backlog-within-bound", "")
		if len(c.writeList) == 0 {
			verifAssertD(c.left == 0, "drained-means-zero", "")
		}
	}
	if op != 2 {
		fits := verifOr(max == 0, left0+size <= max)
		if errors.Is(err, ErrOverflow) || errors.Is(err, errOverflow) {
			verifReach("overflow-rejected")
			verifAssertD(!fits, "overflow-only-when-exceeding", "")
			verifAssertD(closed, "overflow-closes-connection", "")
			verifAssertD(len(f.wire) == wire0, "overflowing-write-sends-nothing", "")
		} else if !vk.fatalInjected {
			// a write that fits is always accepted, whatever the socket can take
			// right now: Write and Writev alike
			verifAssertD(verifImplies(fits, err == nil), "fitting-write-is-accepted", "")
			if err == nil {
				verifAssertD(fits, "exceeding-write-is-refused", "")
				_ = n // that an accepted call reports its whole size is C01's clause
			}
			verifAssertD(verifImplies(fits, !closed), "fitting-write-keeps-connection", "")
		}
	}
	verifAssert(false, "witness")
}

func verifHarness_C17_step_write()  { verifBound("entries", 2); verifC17Step(2, 0) }
func verifHarness_C17_step_writev() { verifC17Step(2, 1) }
func verifHarness_C17_step_flush()  { verifC17Step(2, 2) }

// bounded histories from the initial state: I is established and kept, the
// budget returns after a drain
func verifHarness_C17_histories() {
	verifBound("ops", 3)
	w := verifUnitEngine(Config{BodyAllocator: mempool.New(2, 1<<20)})
	c, f := w.verifAddStream(ConnTypeTCP)
	max := 4 + verifChoose("max", 3)
	w.g.MaxWriteBufferSize = max
	vk.faults = 2
	vk.allowFatal = false
	vk.allowEINTR = false
	accepted := 0
	for i := 0; i < 3 && !c.closed; i++ {
		switch verifChoose("op", 2) {
		case 0:
			size := 1 + verifChoose("blen", 5)
			left0 := c.left
			n, err := c.Write(verifBytes("b", size))
			if err == nil {
				accepted += n
				verifAssertD(left0+size <= max, "exceeding-write-is-refused", "history")
			} else {
				verifAssertD(left0+size > max, "fitting-write-is-accepted", "history")
			}
		case 1:
			_ = c.flush()
		}
		if !c.closed {
			verifAssertD(verifInvariantI(c), "I-preserved", "history")
			verifAssertD(c.left <= max, "backlog-within-bound", "history")
			verifAssertD(c.left == accepted-len(f.wire), "counter-follows-true-backlog", "history")
		}
	}
	if !c.closed {
		vk.faults = 0
		_ = c.flush()
		verifAssertD(c.left == 0 && len(c.writeList) == 0, "full-budget-after-drain", "")
		n, err := c.Write(verifBytes("fill", max))
		verifAssertD(err == nil && n == max, "full-budget-after-drain", "write")
	}
	verifAssert(false, "witness")
}

package nbio

import "time"

// C18 — Stop terminates and reclaims (core engine). Real Engine.Start/Stop,
// poller goroutines, timer.Async, IO task pool, against the kernel model,
// under every interleaving within the preemption bound.

var verifC18QueuedFile = false

func verifC18(mode int, async bool, nconns int, backlog, deadline, racingClose, peerData bool, preempt int) {
	vkReset()
	vk.regime = vkBuffered
	MaxOpenFiles = 32
	conf := verifEngineConf(mode)
	conf.AsyncReadInPoller = async
	g := NewEngine(conf)
	opens, closes := 0, 0
	g.OnOpen(func(c *Conn) { opens++ })
	g.OnClose(func(c *Conn, err error) { closes++ })
	g.OnData(func(c *Conn, data []byte) { verifYield() })
	verifSched(true, preempt)
	if err := g.Start(); err != nil {
		verifFail("engine-start-failed", "")
		return
	}
	var conns []*Conn
	var fds []*vkFd
	for i := 0; i < nconns; i++ {
		f := vk.newFd(vkSockStream)
		f.sendSpace = 1
		c := &Conn{fd: f.fd, typ: ConnTypeTCP}
		if g.pollers[0].addConn(c) != nil {
			return
		}
		conns = append(conns, c)
		fds = append(fds, f)
	}
	if nconns > 0 {
		if backlog {
			_, _ = conns[0].Write([]byte("abc"))
			if verifC18QueuedFile {
				// a file queued behind the backlog: the engine dups its descriptor
				_, _ = conns[0].Sendfile(vkNewFile([]byte("xyz"), 0), 0)
			}
		} else if verifC18QueuedFile {
			// a file alone in the queue (the socket takes one byte, the rest waits)
			_, _ = conns[0].Sendfile(vkNewFile([]byte("xyz"), 0), 0)
		}
		if deadline {
			_ = conns[0].SetDeadline(time.Now().Add(time.Second))
		}
		if peerData {
			fds[0].peerSend([]byte("in"))
		}
		if racingClose {
			c := conns[nconns-1]
			verifGo(func() { _ = c.Close() })
		}
	}
	name := verifModeName(mode)
	verifStepBudget(400000)
	g.Stop()
	verifStepBudgetEnd()
	verifReach("stop-returned")
	verifAssertD(closes == opens && opens == nconns, "close-notification-delivered-for-every-connection-before-stop-returns", name)
	left := verifJoin()
	verifAssertD(left == 0, "no-engine-goroutine-left", name+"/"+verifBlockedOn())
	for _, f := range vk.fds {
		if f != nil && (f.kind != vkFileFd || f.dupped) {
			// (a file the application opened stays the application's; a duplicate
			// the engine made for a queued Sendfile is the engine's)
			verifAssertD(!f.open, "every-descriptor-released", name)
		}
	}
	for i := 0; i < verifTimerCount(); i++ {
		verifAssertD(!verifTimerArmed(i), "no-timer-left-armed", name)
	}
	// (a write to the already closed eventfd by poller.stop when the poller
	// exits first is possible; C18 does not forbid it, so it is not asserted)
}

func verifHarness_C18_idle_engine() {
	verifC18(verifChoose("mode", 3), verifChoose("async", 2) == 1, 0, false, false, false, false, 2)
	verifAssert(false, "witness")
}

func verifHarness_C18_one_conn() {
	verifBound("conns", 1)
	verifBound("preemptions", 2)
	verifC18(verifChoose("mode", 3), false, 1, verifChoose("backlog", 2) == 1, verifChoose("deadline", 2) == 1, false, verifChoose("peer_data", 2) == 1, 1)
	verifAssert(false, "witness")
}

func verifHarness_C18_racing_close() {
	verifC18(verifChoose("mode", 3), false, 1, false, false, true, false, 2)
	verifAssert(false, "witness")
}

func verifHarness_C18_two_conns_async_T() {
	verifBound("conns", 2)
	verifBound("preemptions_two_conns", 1)
	verifC18(1+verifChoose("mode", 2), true, 2, true, true, true, true, 1)
	verifAssert(false, "witness")
}


// a connection whose registration failed must not keep Stop waiting
func verifHarness_C18_stop_after_registration_failure() {
	vkReset()
	MaxOpenFiles = 32
	g := NewEngine(verifEngineConf(verifChoose("mode", 3)))
	opens, closes := 0, 0
	g.OnOpen(func(c *Conn) { opens++ })
	g.OnClose(func(c *Conn, err error) { closes++ })
	verifSched(true, 1)
	if err := g.Start(); err != nil {
		return
	}
	f := vk.newFd(vkSockStream)
	vk.failAdd[f.fd] = true
	_ = g.pollers[0].addConn(&Conn{fd: f.fd, typ: ConnTypeTCP})
	f2 := vk.newFd(vkSockStream)
	_ = g.pollers[0].addConn(&Conn{fd: f2.fd, typ: ConnTypeTCP})
	verifStepBudget(400000)
	g.Stop()
	verifStepBudgetEnd()
	verifReach("stop-returned")
	verifAssertD(opens == 2 && closes == 2, "close-notification-delivered-for-every-connection-before-stop-returns", "registration-failure")
	verifAssertD(verifJoin() == 0, "no-engine-goroutine-left", "registration-failure")
	verifAssert(false, "witness")
}

// Stop while an asynchronous dial is still connecting (with or without a dial
// timeout armed), or has just completed: Stop returns, the socket is released,
// no timer stays armed, and the dial callback has run exactly once.
func verifHarness_C18_stop_with_pending_dial() {
	verifBound("preemptions", 1)
	vkReset()
	MaxOpenFiles = 32
	mode := verifChoose("mode", 3)
	g := NewEngine(verifEngineConf(mode))
	closes := 0
	g.OnClose(func(c *Conn, err error) { closes++ })
	verifSched(true, 1)
	if err := g.Start(); err != nil {
		verifFail("engine-start-failed", "")
		return
	}
	calls, okCalls := 0, 0
	timeout := time.Duration(0)
	if verifChoose("dial_timeout", 2) == 1 {
		timeout = time.Second
	}
	err := g.DialAsyncTimeout("unix", "/verif.sock", timeout, func(c *Conn, err error) {
		calls++
		if err == nil {
			okCalls++
		}
	})
	if err != nil {
		verifFail("dial-starts", "")
		return
	}
	var f *vkFd
	for _, x := range vk.fds {
		if x != nil && x.kind == vkSockStream {
			f = x
		}
	}
	if verifChoose("connect_completes_before_stop", 2) == 1 {
		f.connectDone(0)
	}
	name := verifModeName(mode)
	verifStepBudget(400000)
	g.Stop()
	verifStepBudgetEnd()
	verifReach("stop-returned")
	left := verifJoin()
	verifAssertD(left == 0, "no-engine-goroutine-left", name+"/dial/"+verifBlockedOn())
	verifAssertD(!f.open, "every-descriptor-released", name+"/dial")
	for i := 0; i < verifTimerCount(); i++ {
		verifAssertD(!verifTimerArmed(i), "no-timer-left-armed", name+"/dial")
	}
	verifAssertD(calls == 1, "dial-outcome-reported-exactly-once", name+"/stop")
	verifAssertD(okCalls == 0 || closes == 1, "close-notification-delivered-for-every-connection-before-stop-returns", name+"/dialed")
	verifAssert(false, "witness")
}

// Stop with a Sendfile still queued (alone, or behind a buffered write): the
// descriptor the engine duplicated for it is released as well.
func verifHarness_C18_stop_with_queued_sendfile() {
	verifBound("preemptions", 1)
	verifC18QueuedFile = true
	verifC18(verifChoose("mode", 3), false, 1, verifChoose("buffer_first", 2) == 1, false, false, false, 1)
	verifC18QueuedFile = false
	verifAssert(false, "witness")
}

package nbio

import "github.com/lesismal/nbio/taskpool"

// C05 — per-connection job serialisation under all schedules within the bound.

type verifJobLog struct {
	seq      int
	callAt   map[int]int
	retAt    map[int]int
	accepted map[int]bool
	startAt  map[int]int
	endAt    map[int]int
	starts   map[int]int
	running  int
	maxRun   int
	closeRet int
}

func verifNewJobLog() *verifJobLog {
	return &verifJobLog{callAt: map[int]int{}, retAt: map[int]int{}, accepted: map[int]bool{}, startAt: map[int]int{}, endAt: map[int]int{}, starts: map[int]int{}}
}

func (l *verifJobLog) tick() int { l.seq++; return l.seq }

func (l *verifJobLog) job(id int, panics bool, inner func()) func() {
	return func() {
		l.starts[id]++
		l.startAt[id] = l.tick()
		l.running++
		if l.running > l.maxRun {
			l.maxRun = l.running
		}
		verifYield()
		if inner != nil {
			inner()
		}
		l.running--
		l.endAt[id] = l.tick()
		if panics {
			panic("job panics")
		}
	}
}

func verifC05(executor, submitters, jobsEach int, closer, panicJob, must, nested bool, preempt int) {
	w := verifUnitEngine(Config{})
	c, _ := w.verifAddStream(ConnTypeTCP)
	g := w.g
	var pool *taskpool.TaskPool
	switch executor {
	case 1:
		g.Execute = func(f func()) { go f() }
	case 2:
		pool = taskpool.New(2, 4)
		g.Execute = pool.Go
	}
	l := verifNewJobLog()
	verifSched(true, preempt)
	njobs := 0
	for s := 0; s < submitters; s++ {
		s := s
		verifGo(func() {
			for j := 0; j < jobsEach; j++ {
				id := s*jobsEach + j
				var inner func()
				if nested && id == 0 {
					inner = func() {
						nid := 100
						l.callAt[nid] = l.tick()
						ok := c.Execute(l.job(nid, false, nil))
						l.accepted[nid] = ok
						l.retAt[nid] = l.tick()
					}
				}
				pj := false
				if panicJob {
					pj = verifBool("job_panics")
				}
				f := l.job(id, pj, inner)
				l.callAt[id] = l.tick()
				if must && id == 1 {
					c.MustExecute(f)
					l.accepted[id] = true
				} else {
					l.accepted[id] = c.Execute(f)
				}
				l.retAt[id] = l.tick()
			}
		})
		njobs += jobsEach
	}
	const closeJob = 200
	if closer {
		verifGo(func() {
			_ = c.Close()
			l.closeRet = l.tick()
			// what nbhttp does on close: the close handling is a job that always runs
			c.MustExecute(l.job(closeJob, false, nil))
		})
	}
	blocked := verifJoin()
	_ = blocked
	ids := []int{}
	for id := range l.callAt {
		ids = append(ids, id)
	}
	for _, id := range ids {
		if l.accepted[id] {
			verifAssertD(l.starts[id] == 1 && l.endAt[id] > 0, "accepted-job-runs-exactly-once", "")
		} else {
			verifAssertD(l.starts[id] == 0, "refused-job-never-runs", "")
			verifAssertD(closer, "job-refused-only-when-closed", "")
		}
		if l.closeRet > 0 && l.callAt[id] > l.closeRet && !(must && id == 1) {
			verifReach("execute-after-close")
			verifAssertD(!l.accepted[id], "execute-after-close-returns-false", "")
		}
	}
	if closer {
		verifAssertD(l.starts[closeJob] == 1, "close-handling-job-always-runs", "")
		for _, id := range ids {
			if id != closeJob && l.accepted[id] && !(must && id == 1) && l.starts[id] == 1 {
				// an accepted job was queued while the connection was open, i.e.
				// before the close handling was queued: it runs before it
				verifAssertD(l.startAt[id] < l.startAt[closeJob], "close-handling-runs-after-all-accepted-work", "")
			}
		}
	}
	verifAssertD(l.maxRun <= 1, "jobs-run-one-at-a-time", "")
	for _, a := range ids {
		for _, b := range ids {
			if a != b && l.accepted[a] && l.accepted[b] && l.retAt[a] > 0 && l.retAt[a] < l.callAt[b] && l.starts[a] == 1 && l.starts[b] == 1 {
				verifAssertD(l.startAt[a] < l.startAt[b], "jobs-start-in-submission-order", "")
			}
		}
	}
	verifAssertD(len(c.jobList) == 0, "job-queue-empty-at-quiescence", "")
	if l.maxRun == 1 {
		verifReach("jobs-ran")
	}
	if pool != nil {
		pool.Stop()
	}
}

func verifHarness_C05_inline_2x2() {
	verifBound("submitters", 2)
	verifBound("jobs_each", 2)
	verifBound("preemptions", 2)
	verifC05(0, 2, 2, false, false, false, false, 2)
	verifAssert(false, "witness")
}

func verifHarness_C05_goroutine_2x2() {
	verifC05(1, 2, 2, false, false, false, false, 2)
	verifAssert(false, "witness")
}

func verifHarness_C05_goroutine_panic_and_nested() {
	verifC05(1, 2, 1, false, true, false, true, 2)
	verifAssert(false, "witness")
}

func verifHarness_C05_inline_closer_must() {
	verifC05(0, 2, 1, true, false, true, false, 2)
	verifAssert(false, "witness")
}

func verifHarness_C05_goroutine_closer_Q() {
	verifC05(1, 2, 1, true, false, false, false, 1)
	verifAssert(false, "witness")
}

func verifHarness_C05_goroutine_closer_T() {
	verifC05(1, 2, 1, true, false, false, false, 2)
	verifAssert(false, "witness")
}

func verifHarness_C05_pool_2x2_T() {
	verifC05(2, 2, 2, false, false, false, false, 2)
	verifAssert(false, "witness")
}

func verifHarness_C05_goroutine_3x1_closer_T() {
	verifBound("preemptions", 1)
	verifC05(1, 3, 1, true, true, false, false, 1)
	verifAssert(false, "witness")
}

// a panicking job under every executor (the panic must not keep later jobs
// from running, whichever goroutine runs the queue)
func verifHarness_C05_inline_panic() {
	verifC05(0, 2, 2, false, true, false, false, 1)
	verifAssert(false, "witness")
}

func verifHarness_C05_pool_panic_closer_T() {
	verifC05(2, 2, 1, true, true, false, false, 1)
	verifAssert(false, "witness")
}

package nbio

// Shared harness helpers for package nbio.

import (
	"errors"
	"net"
	"syscall"
)

type verifWorld struct {
	g        *Engine
	p        *poller
	opens    []*Conn
	closes   []*Conn
	closeErr []error
	written  int // OnWrittenSize total
	data     map[*Conn][]byte
}

// verifUnitEngine builds an engine with one poller without starting any
// goroutine (unit-level harnesses drive flush/read themselves).
func verifUnitEngine(conf Config) *verifWorld {
	vkReset()
	MaxOpenFiles = 32
	w := &verifWorld{data: map[*Conn][]byte{}}
	g := NewEngine(conf)
	w.g = g
	g.connsUnix = make([]*Conn, MaxOpenFiles)
	p, err := newPoller(g, false, 0)
	if err != nil {
		panic(err)
	}
	g.pollers = []*poller{p}
	g.NPoller = 1
	g.isOneshot = (g.EpollMod == EPOLLET && g.EPOLLONESHOT == EPOLLONESHOT)
	w.p = p
	g.OnOpen(func(c *Conn) { w.opens = append(w.opens, c) })
	g.OnClose(func(c *Conn, err error) {
		w.closes = append(w.closes, c)
		w.closeErr = append(w.closeErr, err)
	})
	g.OnData(func(c *Conn, b []byte) { w.data[c] = append(w.data[c], b...) })
	return w
}

// verifAddStream creates a connected stream socket in the kernel model and
// registers it with the poller through the real addConn.
func (w *verifWorld) verifAddStream(typ ConnType) (*Conn, *vkFd) {
	f := vk.newFd(vkSockStream)
	c := &Conn{fd: f.fd, typ: typ}
	err := w.p.addConn(c)
	if err != nil {
		panic(err)
	}
	return c, f
}

func verifIsErrno(err error, e syscall.Errno) bool { return errors.Is(err, e) }

var _ = net.ErrClosed

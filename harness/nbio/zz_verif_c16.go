package nbio

import (
	"errors"
	"time"
)

// C16 — deadlines under a virtual clock: time.Now returns fresh non-decreasing
// symbolic instants, timers fire only at or after their deadline.

type verifC16 struct {
	w        *verifWorld
	c        *Conn
	rPending bool
	wPending bool
	rDead    int64 // latest read deadline set (virtual ns, symbolic)
	wDead    int64
}

func (h *verifC16) deadline() time.Time {
	d := verifInt("delta_ns", 1, 1000000)
	return time.Now().Add(time.Duration(d))
}

func (h *verifC16) op(k int) {
	c := h.c
	switch k {
	case 0:
		t := h.deadline()
		_ = c.SetReadDeadline(t)
		if !c.closed {
			h.rPending, h.rDead = true, t.UnixNano()
		}
	case 1:
		t := h.deadline()
		_ = c.SetWriteDeadline(t)
		if !c.closed {
			h.wPending, h.wDead = true, t.UnixNano()
		}
	case 2:
		t := h.deadline()
		_ = c.SetDeadline(t)
		if !c.closed {
			h.rPending, h.rDead = true, t.UnixNano()
			h.wPending, h.wDead = true, t.UnixNano()
		}
	case 3:
		_ = c.SetReadDeadline(time.Time{})
		h.rPending = false
	case 4:
		_ = c.SetWriteDeadline(time.Time{})
		h.wPending = false
	case 5:
		_ = c.SetDeadline(time.Time{})
		h.rPending, h.wPending = false, false
	case 6:
		// a write that leaves no backlog clears the write deadline
		vk.faults = 0
		_, _ = c.Write([]byte("x"))
		if len(c.writeList) == 0 {
			h.wPending = false
		}
	case 7:
		// a write that leaves a backlog keeps it
		vk.faults = 1
		vk.allowPartial, vk.allowEINTR, vk.allowFatal = false, false, false
		_, _ = c.Write([]byte("y"))
		if len(c.writeList) == 0 {
			h.wPending = false
		}
	case 8:
		_ = c.Close()
		h.rPending, h.wPending = false, false
	}
}

func verifC16Run(nops int, alphabet []int) {
	w := verifUnitEngine(Config{})
	c, _ := w.verifAddStream(ConnTypeTCP)
	h := &verifC16{w: w, c: c}
	for i := 0; i < nops; i++ {
		h.op(alphabet[verifChoose("op", len(alphabet))])
	}
	// the model's armed timers are exactly the pending deadlines
	armed := 0
	for i := 0; i < verifTimerCount(); i++ {
		if verifTimerArmed(i) {
			armed++
		}
	}
	want := 0
	if h.rPending {
		want++
	}
	if h.wPending {
		want++
	}
	verifAssertD(armed >= want, "pending-deadline-has-an-armed-timer", "")
	verifAssertD(armed <= want, "no-stale-timer", "")
	closedBefore := c.closed
	// fire every armed timer, in a solver-chosen order
	first := true
	for round := 0; round < 3; round++ {
		var idx []int
		for i := 0; i < verifTimerCount(); i++ {
			if verifTimerArmed(i) {
				idx = append(idx, i)
			}
		}
		if len(idx) == 0 {
			break
		}
		i := idx[verifChoose("fire", len(idx))]
		dl := verifTimerDeadline(i)
		fired := verifFireTimer(i)
		verifJoin()
		if fired && first && !closedBefore {
			first = false
			verifReach("timer-fired")
			verifAssertD(c.closed, "expired-deadline-closes-connection", "")
			if len(w.closeErr) == 1 {
				err := w.closeErr[0]
				isR := errors.Is(err, errReadTimeout)
				isW := errors.Is(err, errWriteTimeout)
				verifAssertD(isR || isW, "timeout-close-reports-timeout-error", "")
				if isR {
					verifAssertD(h.rPending, "read-timeout-only-with-pending-read-deadline", "")
					verifAssertD(dl >= h.rDead, "read-deadline-never-fires-early", "")
				}
				if isW {
					verifAssertD(h.wPending, "write-timeout-only-with-pending-write-deadline", "")
					verifAssertD(dl >= h.wDead, "write-deadline-never-fires-early", "")
				}
			}
		}
	}
	verifJoin()
	if want == 0 && !closedBefore {
		verifAssertD(!c.closed, "cleared-deadline-closes-nothing", "")
	}
	verifAssertD(len(w.closes) <= 1, "at-most-one-close-notification", "")
}

func verifHarness_C16_read_deadline() {
	verifBound("ops", 3)
	verifC16Run(3, []int{0, 3, 8})
	verifAssert(false, "witness")
}

func verifHarness_C16_write_deadline() {
	verifC16Run(3, []int{1, 4, 6, 7})
	verifAssert(false, "witness")
}

func verifHarness_C16_combined() {
	verifC16Run(3, []int{0, 1, 2, 5, 6})
	verifAssert(false, "witness")
}

func verifHarness_C16_mixed_four_ops_T() {
	verifBound("ops", 4)
	verifC16Run(4, []int{0, 1, 2, 3, 4, 5, 6, 7, 8})
	verifAssert(false, "witness")
}

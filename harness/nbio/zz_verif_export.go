package nbio

// Exported constructor for harnesses in other packages (overlay only): a real
// Conn bound to a unit engine whose executor is the given function.
func VerifNewConn(execute func(f func())) *Conn {
	w := verifUnitEngine(Config{})
	if execute != nil {
		w.g.Execute = execute
	}
	c, _ := w.verifAddStream(ConnTypeTCP)
	return c
}

package nbio

import "net"

type verifStreamAddr string

func (a verifStreamAddr) Network() string { return "tcp" }
func (a verifStreamAddr) String() string  { return string(a) }

var _ net.Addr = verifStreamAddr("")

// Exported constructor for harnesses in other packages (overlay only): a real
// Conn bound to a unit engine whose executor is the given function.
func VerifNewConn(execute func(f func())) *Conn {
	w := verifUnitEngine(Config{})
	if execute != nil {
		w.g.Execute = execute
	}
	c, _ := w.verifAddStream(ConnTypeTCP)
	return c
}

// VerifStream is a real Conn on a stream socket of the kernel model whose peer
// has a receive window of `space` bytes (buffered regime); the harness plays
// the peer and the poller: Drain makes room and lets the connection flush as
// the poller would on EPOLLOUT, Wire is what the peer has received so far.
type VerifStream struct {
	C *Conn
	f *vkFd
	w *verifWorld
}

func VerifNewStream(space int) *VerifStream {
	w := verifUnitEngine(Config{})
	vk.regime = vkBuffered
	c, f := w.verifAddStream(ConnTypeTCP)
	c.lAddr = verifStreamAddr("local:80")
	c.rAddr = verifStreamAddr("peer:4000")
	f.sendSpace = space
	return &VerifStream{C: c, f: f, w: w}
}

func (s *VerifStream) Wire() []byte { return append([]byte(nil), s.f.wire...) }

// DrainAll: the peer keeps reading until nothing more arrives.
func (s *VerifStream) DrainAll(space int) {
	for i := 0; i < 64; i++ {
		before := len(s.f.wire)
		s.f.peerDrain(space - s.f.sendSpace)
		if !s.C.closed {
			_ = s.C.flush()
		}
		if len(s.f.wire) == before && (s.C.closed || len(s.C.writeList) == 0) {
			return
		}
	}
}

func (s *VerifStream) Closed() bool { return s.C.closed }

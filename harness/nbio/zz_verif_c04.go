package nbio

// C04 — flush liveness. Buffered kernel regime: a write gets EAGAIN exactly
// when the send buffer is full, the peer keeps draining; the real engine
// (Engine.Start, poller goroutine, addConn) runs under the scheduler. At every
// quiescent state with the peer fully drained the backlog must be gone.

const (
	verifLT        = 0
	verifET        = 1
	verifETOneshot = 2
)

func verifEngineConf(mode int) Config {
	conf := Config{NPoller: 1, ReadBufferSize: 4}
	switch mode {
	case verifET:
		conf.EpollMod = EPOLLET
	case verifETOneshot:
		conf.EpollMod = EPOLLET
		conf.EPOLLONESHOT = EPOLLONESHOT
	}
	return conf
}

func verifModeName(mode int) string {
	return []string{"LT", "ET", "ET+ONESHOT"}[mode]
}

// origin: 0 inside OnOpen (before the connection is registered with epoll),
// 1 inside OnData (poller goroutine), 2 from another goroutine after addConn
func verifC04(mode, origin, space, nbytes int, sendfile bool, preempt int) {
	vkReset()
	vk.regime = vkBuffered
	MaxOpenFiles = 32
	g := NewEngine(verifEngineConf(mode))
	payload := verifBytes("payload", nbytes)
	accepted := 0
	var conn *Conn
	doWrite := func(c *Conn) {
		if sendfile {
			f := vkNewFile(payload, 0)
			n, err := c.Sendfile(f, 0)
			if err == nil {
				accepted += int(n)
			}
			return
		}
		n, err := c.Write(payload)
		if err == nil {
			accepted += n
		}
	}
	g.OnOpen(func(c *Conn) {
		if origin == 0 {
			doWrite(c)
		}
	})
	g.OnData(func(c *Conn, data []byte) {
		if origin == 1 {
			doWrite(c)
		}
	})
	closes := 0
	g.OnClose(func(c *Conn, err error) { closes++ })
	verifSched(true, preempt)
	if err := g.Start(); err != nil {
		verifFail("engine-start-failed", "")
		return
	}
	f := vk.newFd(vkSockStream)
	f.sendSpace = space
	// the peer keeps reading: it drains the send buffer whenever something is
	// in it, at any point of the engine's progress (its own thread)
	verifGo(func() {
		for i := 0; i < 2*nbytes+2; i++ {
			verifBlockUntil(func() bool { return f.sendSpace < space })
			f.peerDrain(space - f.sendSpace)
		}
	})
	conn = &Conn{fd: f.fd, typ: ConnTypeTCP}
	if err := g.pollers[0].addConn(conn); err != nil {
		verifFail("addconn-failed", "")
		return
	}
	switch origin {
	case 1:
		f.peerSend([]byte{1})
	case 2:
		doWrite(conn)
	case 3:
		// from another goroutine while the poller is busy with inbound data
		f.peerSend([]byte{1})
		doWrite(conn)
	}
	verifJoin()
	verifAssertD(f.sendSpace == space, "peer-has-drained-everything-at-quiescence", "")
	name := verifModeName(mode)
	if conn.closed {
		verifReach("closed")
		return
	}
	verifAssertD(accepted == nbytes, "write-accepted", name)
	verifAssertD(len(conn.writeList) == 0, "backlog-drains-when-peer-makes-room", name)
	verifAssertD(len(f.wire) == accepted, "accepted-bytes-delivered", name)
	if len(f.wire) == accepted && accepted == nbytes {
		verifAssertD(verifEqBytes(f.wire, payload), "delivered-bytes-intact", name)
	}
	if accepted > space {
		verifReach("backlog-formed")
	}
}

func verifHarness_C04_write_in_onopen() {
	verifBound("send_space", 2)
	verifBound("bytes", 4)
	verifBound("preemptions", 2)
	verifC04(verifChoose("mode", 3), 0, 1+verifChoose("space", 2), 4, false, 2)
	verifAssert(false, "witness")
}

func verifHarness_C04_write_in_ondata() {
	verifC04(verifChoose("mode", 3), 1, 1+verifChoose("space", 2), 4, false, 2)
	verifAssert(false, "witness")
}

func verifHarness_C04_write_from_other_goroutine() {
	verifC04(verifChoose("mode", 3), 2, 1+verifChoose("space", 2), 4, false, 2)
	verifAssert(false, "witness")
}

func verifHarness_C04_write_while_poller_reads() {
	verifC04(verifChoose("mode", 3), 3, 1+verifChoose("space", 2), 4, false, 2)
	verifAssert(false, "witness")
}

// the same with every unprotected access to the connection's racy fields as a
// scheduling point (ResetPollerEvent, modWrite/resetRead callers, poller loop)
func verifHarness_C04_write_while_poller_reads_racy_fields_T() {
	verifRacyFields("closed,isWAdded,writeList,onConnected,readEvents")
	verifC04(verifChoose("mode", 3), 3, 1, 3, false, 2)
	verifAssert(false, "witness")
}

func verifHarness_C04_sendfile_oneshot() {
	verifC04(verifETOneshot, 2, 1+verifChoose("space", 2), 4, true, 1)
	verifAssert(false, "witness")
}

func verifHarness_C04_sendfile_from_other_goroutine_T() {
	verifC04(verifChoose("mode", 3), 2, 1+verifChoose("space", 2), 4, true, 2)
	verifAssert(false, "witness")
}

func verifHarness_C04_write_in_ondata_preempt2_T() {
	verifBound("preemptions", 2)
	verifC04(verifChoose("mode", 3), 1, 1+verifChoose("space", 3), 5, false, 2)
	verifAssert(false, "witness")
}

// two rounds: a second backlog on the same connection after the first one has
// drained completely, written from another goroutine with the peer only
// reading (whatever state the first drain left behind must allow the second).
func verifHarness_C04_second_backlog_after_full_drain() {
	verifBound("rounds", 2)
	verifBound("preemptions", 1)
	mode := verifChoose("mode", 3)
	vkReset()
	vk.regime = vkBuffered
	MaxOpenFiles = 32
	g := NewEngine(verifEngineConf(mode))
	verifSched(true, 1)
	if err := g.Start(); err != nil {
		verifFail("engine-start-failed", "")
		return
	}
	space := 1 + verifChoose("space", 2)
	f := vk.newFd(vkSockStream)
	f.sendSpace = space
	verifGo(func() {
		for i := 0; i < 16; i++ {
			verifBlockUntil(func() bool { return f.sendSpace < space })
			f.peerDrain(space - f.sendSpace)
		}
	})
	conn := &Conn{fd: f.fd, typ: ConnTypeTCP}
	if err := g.pollers[0].addConn(conn); err != nil {
		verifFail("addconn-failed", "")
		return
	}
	name := verifModeName(mode)
	var all []byte
	for round := 0; round < 2; round++ {
		payload := verifBytes("payload", 3)
		n, err := conn.Write(payload)
		verifAssertD(err == nil && n == 3, "write-accepted", name)
		all = append(all, payload...)
		verifJoin()
		verifAssertD(len(conn.writeList) == 0, "backlog-drains-when-peer-makes-room", name+"/round")
		verifAssertD(len(f.wire) == len(all), "accepted-bytes-delivered", name+"/round")
	}
	verifAssertD(verifEqBytes(f.wire, all), "delivered-bytes-intact", name+"/two-rounds")
	verifAssert(false, "witness")
}

// a dialled connection: the write is issued inside the dial callback (the
// dialled connection's "open" notification), which the poller runs when the
// non-blocking connect completes; it leaves a backlog that must drain while
// the peer reads.
func verifHarness_C04_write_in_dial_callback() {
	verifBound("preemptions", 1)
	mode := verifChoose("mode", 3)
	vkReset()
	vk.regime = vkBuffered
	MaxOpenFiles = 32
	g := NewEngine(verifEngineConf(mode))
	verifSched(true, 1)
	if err := g.Start(); err != nil {
		verifFail("engine-start-failed", "")
		return
	}
	payload := verifBytes("payload", 4)
	accepted := 0
	var conn *Conn
	immediate := verifChoose("connect_completes_immediately", 2) == 1
	vk.connectImmediately = immediate
	// the peer's receive window, set when the socket appears
	space := 1 + verifChoose("space", 2)
	vk.onNewSocket = func(f *vkFd) { f.sendSpace = space }
	err := g.DialAsyncTimeout("unix", "/verif.sock", 0, func(c *Conn, err error) {
		if err != nil {
			return
		}
		conn = c
		n, werr := c.Write(payload)
		if werr == nil {
			accepted = n
		}
	})
	if err != nil {
		verifFail("dial-starts", "")
		return
	}
	var f *vkFd
	for _, x := range vk.fds {
		if x != nil && x.kind == vkSockStream {
			f = x
		}
	}
	verifGo(func() {
		for i := 0; i < 10; i++ {
			verifBlockUntil(func() bool { return f.sendSpace < space })
			f.peerDrain(space - f.sendSpace)
		}
	})
	if !immediate {
		f.connectDone(0)
	}
	verifStepBudget(400000)
	verifJoin()
	verifStepBudgetEnd()
	name := verifModeName(mode) + "/dial-callback"
	if immediate {
		name += "/immediate-connect"
	}
	verifAssertD(conn != nil && accepted == 4, "write-accepted", name)
	if conn != nil && !conn.closed {
		verifAssertD(len(conn.writeList) == 0, "backlog-drains-when-peer-makes-room", name)
		verifAssertD(len(f.wire) == accepted && verifEqBytes(f.wire, payload), "accepted-bytes-delivered", name)
	}
	verifAssert(false, "witness")
}

// a long queue (ten entries that cannot be merged: one-byte files behind a
// buffered byte) and a peer that makes room for all of it at once: with
// edge-triggered polling that is one writable edge, and the whole queue has to
// go out on it.
func verifHarness_C04_long_queue_one_writable_edge() {
	verifBound("queued_entries", 10)
	verifBound("preemptions", 1)
	mode := verifChoose("mode", 3)
	vkReset()
	vk.regime = vkBuffered
	MaxOpenFiles = 64
	g := NewEngine(verifEngineConf(mode))
	verifSched(true, 1)
	if err := g.Start(); err != nil {
		verifFail("engine-start-failed", "")
		return
	}
	f := vk.newFd(vkSockStream)
	f.sendSpace = 1
	conn := &Conn{fd: f.fd, typ: ConnTypeTCP}
	if err := g.pollers[0].addConn(conn); err != nil {
		verifFail("addconn-failed", "")
		return
	}
	payload := verifBytes("payload", 11)
	n, err := conn.Write(payload[:2]) // one byte goes out, one is queued
	verifAssertD(err == nil && n == 2, "write-accepted", "long-queue")
	for i := 2; i < 11; i++ {
		k, err := conn.Sendfile(vkNewFile(payload[i:i+1], 0), 0)
		verifAssertD(err == nil && k == 1, "write-accepted", "long-queue/file")
	}
	verifJoin()
	// the peer reads everything that is there and has room for all the rest
	f.peerDrain(100)
	verifJoin()
	name := verifModeName(mode)
	verifAssertD(len(conn.writeList) == 0, "backlog-drains-when-peer-makes-room", name+"/long-queue")
	verifAssertD(len(f.wire) == 11 && verifEqBytes(f.wire, payload), "accepted-bytes-delivered", name+"/long-queue")
	verifAssert(false, "witness")
}

// CloseAfterFlush (what the HTTP server uses to end a connection after its
// last answer): everything accepted before it is still delivered, in order,
// while the peer makes room byte by byte; nothing written after it reaches the
// wire; the connection is closed exactly once, when the backlog is out — or at
// once when there is none.
func verifHarness_C04_close_after_flush() {
	verifBound("payload_bytes", 4)
	verifBound("preemptions", 1)
	mode := verifChoose("mode", 3)
	vkReset()
	vk.regime = vkBuffered
	MaxOpenFiles = 32
	g := NewEngine(verifEngineConf(mode))
	closes := 0
	g.OnClose(func(c *Conn, err error) { closes++ })
	verifSched(true, 1)
	if err := g.Start(); err != nil {
		verifFail("engine-start-failed", "")
		return
	}
	space := []int{1, 2, 100}[verifChoose("space", 3)]
	f := vk.newFd(vkSockStream)
	f.sendSpace = space
	verifGo(func() {
		for i := 0; i < 8; i++ {
			verifBlockUntil(func() bool { return f.sendSpace < space })
			f.peerDrain(space - f.sendSpace)
		}
	})
	conn := &Conn{fd: f.fd, typ: ConnTypeTCP}
	if err := g.pollers[0].addConn(conn); err != nil {
		verifFail("addconn-failed", "")
		return
	}
	name := verifModeName(mode)
	payload := verifBytes("payload", 4)
	var n int
	var err error
	if verifChoose("entry", 2) == 0 {
		n, err = conn.Write(payload)
	} else {
		n, err = conn.Writev([][]byte{payload[:1], payload[1:]})
	}
	verifAssertD(err == nil && n == 4, "write-accepted", name+"/close-after-flush")
	_ = conn.CloseAfterFlush()
	if verifChoose("late_write", 2) == 1 {
		_, err = conn.Write([]byte{0xEE})
		verifAssertD(err != nil, "write-after-close-refused", name+"/close-after-flush")
	}
	verifJoin()
	verifAssertD(len(f.wire) == 4 && verifEqBytes(f.wire, payload), "accepted-bytes-delivered", name+"/close-after-flush")
	verifAssertD(conn.closed && !f.open && f.closes == 1, "closed-when-backlog-is-out", name+"/close-after-flush")
	verifAssertD(closes == 1, "close-reported-once", name+"/close-after-flush")
	if space < 4 {
		verifReach("backlog-at-close-request")
	}
	verifAssert(false, "witness")
}

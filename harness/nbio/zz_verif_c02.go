package nbio

import "syscall"

// C02 — inbound delivery in every poller configuration. The real engine
// (Engine.Start with its default IO executor and buffers, poller goroutine,
// AsyncRead gate, ResetPollerEvent) runs under the scheduler against the
// kernel+epoll model; a peer sends bursts.

func verifC02Stream(mode int, async, customExec bool, bufSize, maxReads int, bursts int, burstMax int, halfClose bool, preempt int) {
	vkReset()
	MaxOpenFiles = 32
	conf := verifEngineConf(mode)
	conf.AsyncReadInPoller = async
	conf.ReadBufferSize = bufSize
	conf.MaxConnReadTimesPerEventLoop = maxReads
	if customExec {
		conf.IOExecute = func(f func(*[]byte)) {
			go func() {
				b := make([]byte, bufSize)
				f(&b)
			}()
		}
	}
	g := NewEngine(conf)
	var got []byte
	calls := 0
	g.OnData(func(c *Conn, data []byte) {
		calls++
		got = append(got, data...)
	})
	closes := 0
	g.OnClose(func(c *Conn, err error) { closes++ })
	verifSched(true, preempt)
	if err := g.Start(); err != nil {
		verifFail("engine-start-failed", "")
		return
	}
	f := vk.newFd(vkSockStream)
	c := &Conn{fd: f.fd, typ: ConnTypeTCP}
	if err := g.pollers[0].addConn(c); err != nil {
		verifFail("addconn-failed", "")
		return
	}
	name := verifModeName(mode)
	if async {
		name += "/async"
	} else {
		name += "/sync"
	}
	if customExec {
		name += "/custom-executor"
	}
	verifStepBudget(300000)
	var sent []byte
	for b := 0; b < bursts; b++ {
		n := 1 + verifChoose("burst", burstMax)
		data := verifBytes("in", n)
		sent = append(sent, data...)
		f.peerSend(data)
		// the next burst arrives at any point of the engine's progress
		if verifChoose("pause", 2) == 1 {
			verifJoin()
		} else {
			verifYield()
		}
	}
	if halfClose {
		// the peer is done: a half-close (TCP FIN) or a full close with hang-up
		// (unix socket), in both cases after everything it sent
		if verifChoose("peer_closes_fully", 2) == 1 {
			f.peerCloseFull()
		} else {
			f.peerClose()
		}
	}
	verifJoin()
	// everything is idle: all that was sent has been delivered (without waiting
	// for more input to arrive and wake a reader that went to sleep too early)
	verifAssertD(len(got) == len(sent), "every-byte-delivered-exactly-once", name+"/at-quiescence")
	verifAssertD(len(f.rq) == 0, "no-input-left-unread-at-quiescence", name+"/before-probe")
	if !halfClose {
		// the readers are idle now; one more byte must wake them, be delivered,
		// and leave them idle again (a reader left in a bad state spins here and
		// runs into the step budget)
		probe := verifBytes("probe", 1)
		sent = append(sent, probe...)
		f.peerSend(probe)
		verifJoin()
	}
	verifStepBudgetEnd()
	verifAssertD(len(got) == len(sent), "every-byte-delivered-exactly-once", name)
	if len(got) == len(sent) {
		verifAssertD(verifEqBytes(got, sent), "bytes-delivered-in-order-unaltered", name)
	}
	verifAssertD(len(f.rq) == 0, "no-input-left-unread-at-quiescence", name)
	if !halfClose {
		verifAssertD(!c.closed, "connection-stays-open", name)
	} else {
		verifAssertD(c.closed && closes == 1, "half-close-closes-connection-once", name)
	}
	if calls >= 2 {
		verifReach("several-deliveries")
	}
}

func verifHarness_C02_sync_modes() {
	verifBound("bursts", 2)
	verifBound("burst_bytes", 3)
	verifBound("preemptions", 2)
	verifC02Stream(verifChoose("mode", 3), false, false, 1+verifChoose("bufsize", 2), 1+verifChoose("maxreads", 2)*2, 2, 3, false, 2)
	verifAssert(false, "witness")
}

func verifHarness_C02_async_default_executor() {
	// the default IO executor and its buffers are whatever Engine.Start wires
	verifC02Stream(1+verifChoose("mode", 2), true, false, 2, 3, 2, 3, false, 2)
	verifAssert(false, "witness")
}

func verifHarness_C02_async_custom_executor() {
	verifC02Stream(1+verifChoose("mode", 2), true, true, 2, 3, 2, 3, false, 2)
	verifAssert(false, "witness")
}

func verifHarness_C02_half_close() {
	// buffer size and per-loop read limit such that the burst may or may not fit
	// into one event's reads
	verifC02Stream(verifChoose("mode", 3), false, false, 1+verifChoose("bufsize", 2), 1+verifChoose("maxreads", 2)*2, 1, 3, true, 2)
	verifAssert(false, "witness")
}

// three read events in a row against one running read task (the duplicate-event
// gate in AsyncRead): one-byte bursts, edge-triggered, 3 preemptions
func verifHarness_C02_async_three_events_gate() {
	verifBound("bursts", 3)
	verifBound("burst_bytes", 1)
	verifBound("preemptions", 3)
	verifC02Stream(1, true, true, 1, 3, 3, 1, false, 3)
	verifAssert(false, "witness")
}

func verifHarness_C02_async_three_bursts_T() {
	verifBound("bursts", 3)
	verifBound("burst_bytes", 2)
	verifBound("preemptions", 2)
	verifC02Stream(1+verifChoose("mode", 2), true, true, 1+verifChoose("bufsize", 2), 1+verifChoose("maxreads", 2)*2, 3, 2, false, 2)
	verifAssert(false, "witness")
}

// UDP: datagrams of one remote go to one logical connection, different remotes
// to different ones, boundaries preserved
func verifHarness_C02_udp_demux() { verifC02UDP(0, false); verifAssert(false, "witness") }

// the same in every epoll mode, with in-poller and asynchronous reading: three
// datagrams of different lengths are queued before the poller looks
func verifHarness_C02_udp_modes() {
	verifC02UDP(verifChoose("mode", 3), verifChoose("async", 2) == 1)
	verifAssert(false, "witness")
}

func verifC02UDP(mode int, async bool) {
	vkReset()
	MaxOpenFiles = 32
	conf := verifEngineConf(mode)
	conf.ReadBufferSize = 8
	conf.AsyncReadInPoller = async
	g := NewEngine(conf)
	type rec struct {
		c    *Conn
		data []byte
	}
	var recs []rec
	g.OnData(func(c *Conn, data []byte) {
		recs = append(recs, rec{c, append([]byte(nil), data...)})
	})
	opens := 0
	g.OnOpen(func(c *Conn) { opens++ })
	verifSched(true, 1)
	if err := g.Start(); err != nil {
		verifFail("engine-start-failed", "")
		return
	}
	f := vk.newFd(vkSockDgram)
	srv := &Conn{fd: f.fd, typ: ConnTypeUDPServer}
	srv.connUDP = &udpConn{parent: srv, conns: map[udpAddrKey]*Conn{}}
	if err := g.pollers[0].addConn(srv); err != nil {
		verifFail("addconn-failed", "")
		return
	}
	mk := func(tag string) *syscall.SockaddrInet4 {
		sa := &syscall.SockaddrInet4{Port: int(verifU16(tag + "_port"))}
		b := verifBytes(tag+"_ip", 4)
		copy(sa.Addr[:], b)
		return sa
	}
	a1, a2 := mk("a1"), mk("a2")
	same := verifAnd(a1.Port == a2.Port, a1.Addr == a2.Addr)
	d1, d2, d3 := verifBytes("d1", 2), verifBytes("d2", 1), verifBytes("d3", 3)
	f.peerDatagram(d1, a1)
	f.peerDatagram(d2, a2)
	f.peerDatagram(d3, a1)
	verifJoin()
	name := verifModeName(mode)
	if async {
		name += "/async"
	}
	verifAssertD(len(recs) == 3, "one-callback-per-datagram", name)
	if len(recs) == 3 {
		verifAssertD(len(recs[0].data) == 2 && len(recs[1].data) == 1 && len(recs[2].data) == 3, "datagram-boundaries-preserved", name)
		verifAssertD(verifEqBytes(recs[0].data, d1) && verifEqBytes(recs[1].data, d2) && verifEqBytes(recs[2].data, d3), "datagram-contents", "")
		verifAssertD(recs[0].c == recs[2].c, "same-remote-same-connection", "")
		verifAssertD(verifImplies(!same, recs[0].c != recs[1].c), "different-remotes-different-connections", "")
		verifAssertD(verifImplies(same, recs[0].c == recs[1].c), "same-remote-same-connection", "symbolic")
		verifAssertD(recs[0].c != srv, "peer-session-is-not-the-listener", "")
	}
}


// a dialled connection whose peer talks first: the connect result and the
// first bytes can be reported by one and the same epoll event
func verifHarness_C02_dial_then_greeting() {
	vkReset()
	MaxOpenFiles = 32
	g := NewEngine(verifEngineConf(verifChoose("mode", 3)))
	var got []byte
	g.OnData(func(c *Conn, data []byte) { got = append(got, data...) })
	verifSched(true, 1)
	if err := g.Start(); err != nil {
		return
	}
	connected := 0
	err := g.DialAsyncTimeout("unix", "/verif.sock", 0, func(c *Conn, err error) {
		if err == nil {
			connected++
		}
	})
	if err != nil {
		verifFail("dial-starts", "")
		return
	}
	var f *vkFd
	for _, x := range vk.fds {
		if x != nil && x.kind == vkSockStream {
			f = x
		}
	}
	greeting := verifBytes("greeting", 2)
	// the connect completes and the greeting arrives before the poller looks
	f.connectDone(0)
	f.peerSend(greeting)
	verifJoin()
	verifAssertD(connected == 1, "dial-reports-success", "")
	verifAssertD(len(got) == 2 && verifEqBytes(got, greeting), "every-byte-delivered-exactly-once", "dial-then-greeting")
	verifAssertD(len(f.rq) == 0, "no-input-left-unread-at-quiescence", "dial-then-greeting")
	verifAssert(false, "witness")
}

// two pollers, two connections handed to the engine through the real AddConn
// (fd hash picks the poller): each connection's bytes reach its own callback
// invocations, once and in order, whichever poller serves it.
func verifHarness_C02_two_pollers_two_conns() {
	verifBound("pollers", 2)
	verifBound("conns", 2)
	verifBound("preemptions", 1)
	vkReset()
	MaxOpenFiles = 32
	mode := verifChoose("mode", 3)
	conf := verifEngineConf(mode)
	conf.NPoller = 2
	conf.ReadBufferSize = 2
	g := NewEngine(conf)
	got := map[*Conn][]byte{}
	g.OnData(func(c *Conn, data []byte) { got[c] = append(got[c], data...) })
	verifSched(true, 1)
	if err := g.Start(); err != nil {
		verifFail("engine-start-failed", "")
		return
	}
	var conns []*Conn
	var fds []*vkFd
	for i := 0; i < 2; i++ {
		f := vk.newFd(vkSockStream)
		c, err := g.AddConn(&Conn{fd: f.fd, typ: ConnTypeTCP})
		if err != nil {
			verifFail("addconn-failed", "")
			return
		}
		conns = append(conns, c)
		fds = append(fds, f)
	}
	verifAssertD(conns[0].p != conns[1].p, "setup-connections-on-different-pollers", "")
	name := verifModeName(mode) + "/two-pollers"
	verifStepBudget(400000)
	d0, d1 := verifBytes("in0", 3), verifBytes("in1", 2)
	fds[0].peerSend(d0)
	fds[1].peerSend(d1)
	verifJoin()
	more := verifBytes("in0b", 1)
	fds[0].peerSend(more)
	verifJoin()
	verifStepBudgetEnd()
	want0 := append(append([]byte(nil), d0...), more...)
	verifAssertD(len(got[conns[0]]) == 4 && verifEqBytes(got[conns[0]], want0), "every-byte-delivered-exactly-once", name)
	verifAssertD(len(got[conns[1]]) == 2 && verifEqBytes(got[conns[1]], d1), "every-byte-delivered-exactly-once", name+"/second")
	verifAssertD(len(got) == 2, "bytes-attributed-to-their-connection", name)
	verifAssert(false, "witness")
}

// the peer sends and closes while reading is asynchronous: the close must not
// overtake the dispatched read task
func verifHarness_C02_half_close_async() {
	verifC02Stream(verifChoose("mode", 3), true, verifChoose("custom_executor", 2) == 1, 2, 3, 1, 3, true, 2)
	verifAssert(false, "witness")
}

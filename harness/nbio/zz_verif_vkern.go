//go:build go1.21

package nbio

// vkern — kernel model for package nbio (DESIGN §3.1/3.2). Ordinary Go: run
// symbolically by the engine (which redirects syscall.X to vk_X) and natively
// for replay (overlay copies of the sources with the selectors rewritten).

import (
	"os"
	"syscall"
	"time"
	"unsafe"
)

const (
	vkSockStream = 1
	vkFileFd     = 2
	vkEpollFd    = 3
	vkEventFd    = 4
	vkSockDgram  = 5
)

type vkDgram struct {
	data []byte
	from syscall.Sockaddr
}

type vkFd struct {
	fd     int
	kind   int
	open   bool
	closes int

	// stream socket, outbound
	wire      []byte // every byte the kernel accepted, in order (ghost)
	wireSrc   []int  // which call produced each byte (ghost)
	sendSpace int    // buffered regime: free send-buffer space
	// inbound
	rq     []byte
	dgrams []vkDgram
	eof    bool
	dupped  bool // created by dup(2): whoever called it owns it
	fullHup bool // the peer closed both directions (unix socket close): EPOLLHUP together with EOF
	rerr   syscall.Errno // pending read error (reset)
	werr   syscall.Errno // sticky write error
	// connect
	connecting bool
	connResult syscall.Errno
	// file
	file *vkFile
	// epoll interest (for sockets registered in an epoll instance)
	registered bool
	mask       uint32
	disabled   bool // EPOLLONESHOT fired
	edgeIn     bool // ET: a readable edge is pending
	edgeOut    bool // ET: a writable edge is pending
	epfd       int
	evCount    uint64 // eventfd counter
}

type vkFile struct {
	data []byte
	pos  int64
	fd   int
}

type vkFileInfo struct{ size int64 }

func (fi vkFileInfo) Name() string       { return "vkfile" }
func (fi vkFileInfo) Size() int64        { return fi.size }
func (fi vkFileInfo) Mode() os.FileMode  { return 0 }
func (fi vkFileInfo) ModTime() time.Time { return time.Time{} }
func (fi vkFileInfo) IsDir() bool        { return false }
func (fi vkFileInfo) Sys() interface{}   { return nil }

const (
	vkFree     = 0 // any outcome at any call (bounded fault budget)
	vkBuffered = 1 // outcome determined by send-buffer space
)

type vkKernel struct {
	fds    []*vkFd
	files  map[*os.File]*vkFile
	regime int
	faults int // remaining budget of non-full outcomes (free regime)
	// which outcomes the free regime may choose
	allowPartial, allowEAGAIN, allowEINTR, allowFatal bool
	fatalInjected bool
	callSeq       int // ghost: sequence number of the current accepted-bytes source
	badOps        []string
	ctlErrors     []string
	onWait        func(epfd int) bool // sequential poller driving: environment steps; false = stop
	syscalls      int
	emptyReads    int // reads that returned EAGAIN
	waiting       int // pollers blocked in epoll_wait
	failAdd       map[int]bool // fds for which EPOLL_CTL_ADD fails (fault injection)
	connectImmediately bool   // connect(2) succeeds at once instead of EINPROGRESS
	onNewSocket   func(f *vkFd) // harness hook: socket(2) created f
	onConnect     func(f *vkFd) // harness hook: connect(2) on f is in progress
	log           []string
}

var vk *vkKernel

func vkReset() *vkKernel {
	vk = &vkKernel{files: map[*os.File]*vkFile{}, failAdd: map[int]bool{}}
	vk.fds = make([]*vkFd, 3, 16)
	vk.allowPartial, vk.allowEAGAIN, vk.allowEINTR, vk.allowFatal = true, true, true, true
	return vk
}

func (k *vkKernel) newFd(kind int) *vkFd {
	f := &vkFd{fd: len(k.fds), kind: kind, open: true}
	k.fds = append(k.fds, f)
	return f
}

func (k *vkKernel) get(fd int, op string) *vkFd {
	k.syscalls++
	if fd < 0 || fd >= len(k.fds) || k.fds[fd] == nil || !k.fds[fd].open {
		k.badOps = append(k.badOps, op)
		return nil
	}
	return k.fds[fd]
}

// outcome picks what the kernel does with a write of max bytes.
func (k *vkKernel) outcome(f *vkFd, max int) (int, error) {
	if f.werr != 0 {
		return -1, f.werr
	}
	if k.regime == vkBuffered {
		if f.sendSpace == 0 {
			return -1, syscall.EAGAIN
		}
		n := max
		if n > f.sendSpace {
			n = f.sendSpace
		}
		f.sendSpace -= n
		return n, nil
	}
	if k.faults <= 0 {
		return max, nil
	}
	switch verifChoose("kernel", 5) {
	case 1:
		verifAssume(k.allowPartial && max > 1)
		k.faults--
		return verifConc(verifInt("accepted", 1, max-1)), nil
	case 2:
		verifAssume(k.allowEAGAIN)
		k.faults--
		return -1, syscall.EAGAIN
	case 3:
		verifAssume(k.allowEINTR)
		k.faults--
		return -1, syscall.EINTR
	case 4:
		verifAssume(k.allowFatal)
		k.faults--
		k.fatalInjected = true
		f.werr = syscall.EPIPE
		return -1, syscall.EPIPE
	}
	return max, nil
}

func (f *vkFd) accept(p []byte, src int) {
	f.wire = append(f.wire, p...)
	for range p {
		f.wireSrc = append(f.wireSrc, src)
	}
	if len(p) > 0 && f.rq != nil {
		_ = 0
	}
}

func vk_Write(fd int, p []byte) (int, error) {
	verifYield() // a system call is a scheduling point, before and after
	n, err := vk_Write_impl(fd, p)
	verifYield()
	return n, err
}

func vk_Write_impl(fd int, p []byte) (int, error) {
	f := vk.get(fd, "write")
	if f == nil {
		return -1, syscall.EBADF
	}
	if f.kind == vkEventFd {
		f.evCount++
		return 8, nil
	}
	if len(p) == 0 {
		return 0, nil
	}
	n, err := vk.outcome(f, len(p))
	if n > 0 {
		f.accept(p[:n], vk.callSeq)
	}
	return n, err
}

// vk_Syscall models writev(2) and eventfd2(2), the two raw syscalls nbio issues.
func vk_Syscall(trap, a1, a2, a3 uintptr) (uintptr, uintptr, syscall.Errno) {
	verifYield()
	r1, r2, e := vk_Syscall_impl(trap, a1, a2, a3)
	verifYield()
	return r1, r2, e
}

func vk_Syscall_impl(trap, a1, a2, a3 uintptr) (uintptr, uintptr, syscall.Errno) {
	switch trap {
	case syscall.SYS_WRITEV:
		f := vk.get(int(a1), "writev")
		if f == nil {
			return ^uintptr(0), 0, syscall.EBADF
		}
		iovs := unsafe.Slice((*syscall.Iovec)(unsafe.Pointer(a2)), int(a3))
		total := 0
		for i := range iovs {
			total += int(iovs[i].Len)
		}
		n, err := vk.outcome(f, total)
		if err != nil {
			return ^uintptr(0), 0, err.(syscall.Errno)
		}
		left := n
		for i := range iovs {
			if left == 0 {
				break
			}
			b := unsafe.Slice(iovs[i].Base, int(iovs[i].Len))
			m := len(b)
			if m > left {
				m = left
			}
			f.accept(b[:m], vk.callSeq)
			left -= m
		}
		return uintptr(n), 0, 0
	case syscall.SYS_EVENTFD2:
		f := vk.newFd(vkEventFd)
		return uintptr(f.fd), 0, 0
	}
	return ^uintptr(0), 0, syscall.ENOSYS
}

func vk_Close(fd int) error {
	verifYield() // a system call is a scheduling point, before and after
	err := vk_Close_impl(fd)
	verifYield()
	return err
}

func vk_Close_impl(fd int) error {
	f := vk.get(fd, "close")
	if f == nil {
		return syscall.EBADF
	}
	f.open = false
	f.closes++
	f.registered = false // closing removes the fd from every epoll set
	return nil
}

func vk_Dup(fd int) (int, error) {
	f := vk.get(fd, "dup")
	if f == nil {
		return -1, syscall.EBADF
	}
	nf := vk.newFd(f.kind)
	nf.file = f.file
	nf.dupped = true
	return nf.fd, nil
}

func vk_SetNonblock(fd int, nb bool) error {
	if vk.get(fd, "setnonblock") == nil {
		return syscall.EBADF
	}
	return nil
}

func vk_SetsockoptInt(fd, level, opt, value int) error { return nil }

func vk_GetsockoptInt(fd, level, opt int) (int, error) {
	f := vk.get(fd, "getsockopt")
	if f == nil {
		return -1, syscall.EBADF
	}
	if opt == syscall.SO_ERROR {
		e := int(f.connResult)
		return e, nil
	}
	return 0, nil
}

func vk_Socket(domain, typ, proto int) (int, error) {
	f := vk.newFd(vkSockStream)
	if vk.onNewSocket != nil {
		vk.onNewSocket(f)
	}
	return f.fd, nil
}

func vk_Connect(fd int, sa syscall.Sockaddr) error {
	f := vk.get(fd, "connect")
	if f == nil {
		return syscall.EBADF
	}
	if vk.connectImmediately {
		// a connect that completes at once (unix sockets do)
		f.edgeOut = true
		if vk.onConnect != nil {
			vk.onConnect(f)
		}
		return nil
	}
	f.connecting = true
	if vk.onConnect != nil {
		vk.onConnect(f)
	}
	return syscall.EINPROGRESS
}

func vk_Getsockname(fd int) (syscall.Sockaddr, error) {
	return &syscall.SockaddrUnix{Name: ""}, nil
}

// connectDone completes a non-blocking connect (environment step).
func (f *vkFd) connectDone(result syscall.Errno) {
	f.connecting = false
	f.connResult = result
	if result != 0 {
		f.rerr = result
		f.werr = syscall.EPIPE
	}
	f.edgeIn = true
	f.edgeOut = true
}

func vk_Sendfile(outfd, infd int, offset *int64, count int) (int, error) {
	verifYield() // a system call is a scheduling point, before and after
	n, err := vk_Sendfile_impl(outfd, infd, offset, count)
	verifYield()
	return n, err
}

func vk_Sendfile_impl(outfd, infd int, offset *int64, count int) (int, error) {
	out := vk.get(outfd, "sendfile-out")
	in := vk.get(infd, "sendfile-in")
	if out == nil || in == nil || in.file == nil {
		return -1, syscall.EBADF
	}
	avail := int64(len(in.file.data)) - *offset
	if avail <= 0 || count <= 0 {
		return 0, nil
	}
	max := count
	if int64(max) > avail {
		max = int(avail)
	}
	n, err := vk.outcome(out, max)
	if n > 0 {
		out.accept(in.file.data[*offset:*offset+int64(n)], vk.callSeq)
		*offset += int64(n)
	}
	return n, err
}

// ---- os.File methods used by Conn.Sendfile

func vkNewFile(data []byte, pos int64) *os.File {
	f := new(os.File)
	fd := vk.newFd(vkFileFd)
	vf := &vkFile{data: data, pos: pos, fd: fd.fd}
	fd.file = vf
	vk.files[f] = vf
	return f
}

func vk_File_Seek(f *os.File, offset int64, whence int) (int64, error) {
	vf := vk.files[f]
	return vf.pos, nil
}

func vk_File_Stat(f *os.File) (os.FileInfo, error) {
	vf := vk.files[f]
	return vkFileInfo{size: int64(len(vf.data))}, nil
}

func vk_File_Fd(f *os.File) uintptr {
	return uintptr(vk.files[f].fd)
}

// ---- inbound

func vk_Read(fd int, p []byte) (int, error) {
	verifYield() // a system call is a scheduling point, before and after
	n, err := vk_Read_impl(fd, p)
	verifYield()
	return n, err
}

func vk_Read_impl(fd int, p []byte) (int, error) {
	f := vk.get(fd, "read")
	if f == nil {
		return -1, syscall.EBADF
	}
	if f.kind == vkEventFd {
		f.evCount = 0
		return 8, nil
	}
	if len(p) == 0 {
		return 0, nil
	}
	if len(f.rq) == 0 {
		if f.rerr != 0 {
			e := f.rerr
			return -1, e
		}
		if f.eof {
			return 0, nil
		}
		vk.emptyReads++
		return -1, syscall.EAGAIN
	}
	n := copy(p, f.rq)
	f.rq = f.rq[n:]
	return n, nil
}

func vk_Recvfrom(fd int, p []byte, flags int) (int, syscall.Sockaddr, error) {
	f := vk.get(fd, "recvfrom")
	if f == nil {
		return -1, nil, syscall.EBADF
	}
	if len(f.dgrams) == 0 {
		vk.emptyReads++
		return -1, nil, syscall.EAGAIN
	}
	d := f.dgrams[0]
	f.dgrams = f.dgrams[1:]
	n := copy(p, d.data)
	return n, d.from, nil
}

func vk_Sendto(fd int, p []byte, flags int, to syscall.Sockaddr) error {
	f := vk.get(fd, "sendto")
	if f == nil {
		return syscall.EBADF
	}
	f.accept(p, vk.callSeq)
	return nil
}

// ---- epoll (rules: DESIGN §3.2)

const vkEpollET = uint32(1) << 31
const vkEpollONESHOT = uint32(syscall.EPOLLONESHOT)

func vk_EpollCreate1(flag int) (int, error) {
	return vk.newFd(vkEpollFd).fd, nil
}

func vk_EpollCtl(epfd int, op int, fd int, ev *syscall.EpollEvent) error {
	verifYield() // a system call is a scheduling point, before and after
	err := vk_EpollCtl_impl(epfd, op, fd, ev)
	verifYield()
	return err
}

func vk_EpollCtl_impl(epfd int, op int, fd int, ev *syscall.EpollEvent) error {
	vk.syscalls++
	if fd < 0 || fd >= len(vk.fds) || vk.fds[fd] == nil || !vk.fds[fd].open {
		vk.ctlErrors = append(vk.ctlErrors, "EBADF")
		return syscall.EBADF
	}
	f := vk.fds[fd]
	switch op {
	case syscall.EPOLL_CTL_ADD:
		if vk.failAdd[fd] {
			vk.ctlErrors = append(vk.ctlErrors, "ENOMEM")
			return syscall.ENOMEM
		}
		if f.registered {
			vk.ctlErrors = append(vk.ctlErrors, "EEXIST")
			return syscall.EEXIST
		}
		f.registered = true
		f.epfd = epfd
	case syscall.EPOLL_CTL_MOD:
		if !f.registered {
			vk.ctlErrors = append(vk.ctlErrors, "ENOENT")
			return syscall.ENOENT
		}
	case syscall.EPOLL_CTL_DEL:
		if !f.registered {
			vk.ctlErrors = append(vk.ctlErrors, "ENOENT")
			return syscall.ENOENT
		}
		f.registered = false
		return nil
	}
	f.mask = ev.Events
	f.disabled = false
	// ADD and MOD (re-)evaluate readiness: an event is queued if ready
	f.edgeIn = true
	f.edgeOut = true
	return nil
}

func (f *vkFd) readable() bool {
	if f.kind == vkEventFd {
		return f.evCount > 0
	}
	return len(f.rq) > 0 || len(f.dgrams) > 0 || f.eof || f.rerr != 0
}

func (f *vkFd) writable() bool {
	if f.kind == vkEventFd {
		return true
	}
	if f.connecting {
		return false
	}
	if vk.regime == vkBuffered {
		return f.sendSpace > 0 || f.werr != 0
	}
	return true
}

func (f *vkFd) hup() bool { return f.eof || f.rerr != 0 }

// pending computes the events an epoll_wait would report for f now.
func (f *vkFd) pending() uint32 {
	if !f.registered || f.disabled || !f.open {
		return 0
	}
	var ev uint32
	et := f.mask&vkEpollET != 0
	if f.mask&syscall.EPOLLIN != 0 && f.readable() && (!et || f.edgeIn) {
		ev |= syscall.EPOLLIN
	}
	if f.mask&syscall.EPOLLOUT != 0 && f.writable() && (!et || f.edgeOut) {
		ev |= syscall.EPOLLOUT
	}
	if f.hup() && (!et || f.edgeIn) {
		if f.eof {
			ev |= syscall.EPOLLRDHUP & f.mask
			if f.fullHup {
				ev |= syscall.EPOLLHUP // reported whether asked for or not; data may still be queued
			}
		}
		if f.rerr != 0 {
			ev |= syscall.EPOLLERR | syscall.EPOLLHUP
		}
	}
	return ev
}

func (k *vkKernel) anyPending(epfd int) bool {
	for _, f := range k.fds {
		if f != nil && f.epfd == epfd && f.pending() != 0 {
			return true
		}
	}
	return false
}

// collect fills events and consumes edges / oneshot arming.
func (k *vkKernel) collect(epfd int, events []syscall.EpollEvent) int {
	n := 0
	for _, f := range k.fds {
		if f == nil || f.epfd != epfd || n >= len(events) {
			continue
		}
		ev := f.pending()
		if ev == 0 {
			continue
		}
		events[n].Fd = int32(f.fd)
		events[n].Events = ev
		n++
		if f.mask&vkEpollET != 0 {
			if ev&(syscall.EPOLLIN|syscall.EPOLLRDHUP|syscall.EPOLLERR|syscall.EPOLLHUP) != 0 {
				f.edgeIn = false
			}
			if ev&syscall.EPOLLOUT != 0 {
				f.edgeOut = false
			}
		}
		if f.mask&vkEpollONESHOT != 0 {
			f.disabled = true
		}
	}
	return n
}

func vk_EpollWait(epfd int, events []syscall.EpollEvent, msec int) (int, error) {
	vk.syscalls++
	if vk.onWait != nil {
		// sequential driving: the environment acts while the poller waits
		for {
			if vk.anyPending(epfd) {
				return vk.collect(epfd, events), nil
			}
			if !vk.onWait(epfd) {
				return 0, nil
			}
		}
	}
	// threaded driving: block until something is reportable
	vk.waiting++
	verifBlockUntil(func() bool { return vk.anyPending(epfd) })
	vk.waiting--
	return vk.collect(epfd, events), nil
}

// ---- environment steps on sockets

// peerSend makes data arrive on f (a new readable edge in ET mode).
func (f *vkFd) peerSend(b []byte) {
	f.rq = append(f.rq, b...)
	f.edgeIn = true
}

func (f *vkFd) peerDatagram(b []byte, from syscall.Sockaddr) {
	f.dgrams = append(f.dgrams, vkDgram{data: b, from: from})
	f.edgeIn = true
}

func (f *vkFd) peerClose() {
	f.eof = true
	f.edgeIn = true
}

// peerCloseFull is a peer that closes its whole socket (as a unix socket peer
// does): hang-up and end of stream are reported together, and whatever it sent
// before is still there to be read.
func (f *vkFd) peerCloseFull() {
	f.eof = true
	f.fullHup = true
	f.edgeIn = true
}

func (f *vkFd) peerReset() {
	f.rerr = syscall.ECONNRESET
	f.werr = syscall.EPIPE
	f.edgeIn = true
	f.edgeOut = true
}

// peerDrain frees n bytes of send-buffer space (buffered regime); a writable
// edge is produced if the buffer was full.
func (f *vkFd) peerDrain(n int) {
	was := f.sendSpace
	f.sendSpace += n
	if was == 0 && n > 0 {
		f.edgeOut = true
	}
}

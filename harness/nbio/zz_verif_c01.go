package nbio

import (
	"errors"
	"net"
	"syscall"

	"github.com/lesismal/nbio/mempool"
)

// C01 — outbound stream integrity. A program of k operations (Write, Writev,
// Sendfile, a writability event) against a kernel that may accept any prefix,
// say EAGAIN / EINTR, or fail; the ghost stream A is what the calls reported
// as accepted; after a final drain the wire must equal A.

type verifC01 struct {
	w        *verifWorld
	c        *Conn
	f        *vkFd
	accepted []byte // ghost A
	unsure   []byte // bytes of a call that closed the connection: any prefix may have gone out
	name     string
}

func (h *verifC01) afterCall(op string, in []byte, n int, err error) {
	switch {
	case err == nil:
		verifAssertD(n == len(in), "accepted-call-reports-whole-input", op)
		h.accepted = append(h.accepted, in...)
	case h.c.closed:
		h.unsure = in
	default:
		// error, connection still open: the first max(n,0) bytes were taken
		if n < 0 {
			n = 0
		}
		verifAssertD(n <= len(in), "reported-count-within-input", op)
		if n <= len(in) {
			h.accepted = append(h.accepted, in[:n]...)
		}
	}
	if h.c.closed {
		// a close is legitimate only after a fatal kernel outcome
		verifAssertD(vk.fatalInjected, "connection-closed-without-fatal-error", op)
	}
}

func (h *verifC01) write(maxLen int) {
	b := verifBytes("w", verifChoose("wlen", maxLen+1))
	in := append([]byte(nil), b...)
	vk.callSeq++
	n, err := h.c.Write(b)
	h.afterCall("Write", in, n, err)
}

func (h *verifC01) writev(maxBufs, maxLen int) {
	nb := 2
	if maxBufs > 2 {
		nb = 2 + verifChoose("nbufs", maxBufs-1)
	}
	var bs [][]byte
	var in []byte
	for i := 0; i < nb; i++ {
		b := verifBytes("v", verifChoose("vlen", maxLen+1))
		bs = append(bs, b)
		in = append(in, b...)
	}
	vk.callSeq++
	n, err := h.c.Writev(bs)
	h.afterCall("Writev", in, n, err)
}

func (h *verifC01) sendfile(maxLen int) {
	// the file may be empty and the read position may be at its end
	size := verifChoose("fsize", maxLen+1)
	off := verifChoose("foff", size+1)
	data := verifBytes("file", size)
	f := vkNewFile(data, int64(off))
	want := int64(0)
	if verifChoose("fremain", 2) == 1 && size-off > 1 {
		want = int64(1 + verifChoose("fremain_n", size-off-1))
	}
	exp := data[off:]
	if want > 0 {
		exp = data[off : off+int(want)]
	}
	vk.callSeq++
	n, err := h.c.Sendfile(f, want)
	h.afterCall("Sendfile", append([]byte(nil), exp...), int(n), err)
}

func (h *verifC01) finish() {
	c, f := h.c, h.f
	if !c.closed {
		// final drain: the kernel takes everything
		vk.faults = 0
		for i := 0; i < 4 && len(c.writeList) > 0 && !c.closed; i++ {
			verifStepBudget(200000)
			_ = c.flush()
			verifStepBudgetEnd()
		}
		verifAssertD(len(c.writeList) == 0, "queue-drains-when-kernel-accepts", h.name)
		verifAssertD(len(f.wire) == len(h.accepted), "wire-length-equals-accepted", h.name)
		if len(f.wire) == len(h.accepted) {
			verifAssertD(verifEqBytes(f.wire, h.accepted), "wire-equals-accepted-stream", h.name)
		}
		verifReach("drained-open")
	} else {
		verifReach("closed")
		// wire is A followed by a prefix of the call that hit the error... or a
		// prefix of A if the failure came at a flush
		all := append(append([]byte(nil), h.accepted...), h.unsure...)
		ok := len(f.wire) <= len(all)
		if ok {
			ok = verifEqBytes(f.wire, all[:len(f.wire)])
		}
		verifAssertD(ok, "wire-is-prefix-of-accepted-after-close", h.name)
	}
	for _, op := range vk.badOps {
		verifFail("syscall-on-closed-fd", op)
	}
}

var verifC01Faults = 2

func verifC01Program(typ ConnType, steps, maxLen int, sendfile bool, name string) {
	// a pool with 2-byte buffers: with the cache threshold scaled to 6 the
	// capacity of a cached buffer must be able to be smaller than what is
	// coalesced into it (the default pool's 1024-byte buffers never are)
	w := verifUnitEngine(Config{BodyAllocator: mempool.New(2, 1<<20)})
	c, f := w.verifAddStream(typ)
	w.g.OnWrittenSize(func(c *Conn, b []byte, n int) { w.written += n })
	h := &verifC01{w: w, c: c, f: f, name: name}
	vk.faults = verifC01Faults
	nops := 3
	if sendfile {
		nops = 4
	}
	for s := 0; s < steps && !c.closed; s++ {
		switch verifChoose("op", nops) {
		case 0:
			h.write(maxLen)
		case 1:
			h.writev(2, maxLen)
		case 2:
			verifStepBudget(200000)
			err := c.flush()
			verifStepBudgetEnd()
			if err != nil && !errors.Is(err, net.ErrClosed) {
				verifAssertD(vk.fatalInjected, "connection-closed-without-fatal-error", "flush")
			}
		case 3:
			h.sendfile(3)
		}
	}
	h.finish()
}

func verifHarness_C01_tcp_Q() {
	verifBound("ops", 3)
	verifBound("buffer_len", 2)
	verifBound("kernel_faults", 2)
	verifC01Program(ConnTypeTCP, 3, 2, false, "tcp")
	verifAssert(false, "witness")
}

func verifHarness_C01_unix_Q() {
	verifC01Program(ConnTypeUnix, 3, 2, false, "unix")
	verifAssert(false, "witness")
}

func verifHarness_C01_tcp_sendfile_Q() {
	verifC01Program(ConnTypeTCP, 2, 2, true, "tcp+sendfile")
	verifAssert(false, "witness")
}

func verifHarness_C01_tcp_four_ops_T() {
	verifBound("ops", 4)
	verifBound("buffer_len", 2)
	verifC01Program(ConnTypeTCP, 4, 2, false, "tcp")
	verifAssert(false, "witness")
}

func verifHarness_C01_tcp_longer_buffers_T() {
	verifBound("ops", 3)
	verifBound("buffer_len", 3)
	verifC01Program(ConnTypeTCP, 3, 3, false, "tcp")
	verifAssert(false, "witness")
}

func verifHarness_C01_unix_T() {
	verifC01Program(ConnTypeUnix, 3, 2, true, "unix+sendfile")
	verifAssert(false, "witness")
}

func verifHarness_C01_tcp_sendfile_T() {
	verifC01Program(ConnTypeTCP, 3, 3, true, "tcp+sendfile")
	verifAssert(false, "witness")
}

var _ = syscall.EAGAIN

// three kernel faults: EAGAIN, a partial flush and EAGAIN again leave a
// partly flushed entry at the tail of the queue for the next write
func verifHarness_C01_tcp_three_faults() {
	verifBound("kernel_faults", 3)
	verifC01Faults = 3
	verifC01Program(ConnTypeTCP, 3, 2, false, "tcp")
	verifC01Faults = 2
	verifAssert(false, "witness")
}

// two connections of one poller, each written to with Writev by its own
// goroutine at the same time: each peer receives its own connection's bytes.
func verifHarness_C01_two_connections_concurrent_writev() {
	verifBound("connections", 2)
	verifBound("preemptions", 2)
	w := verifUnitEngine(Config{})
	c1, f1 := w.verifAddStream(ConnTypeTCP)
	c2, f2 := w.verifAddStream(ConnTypeTCP)
	vk.faults = 0
	a, b := verifBytes("a", 3), verifBytes("b", 3)
	var n1, n2 int
	var e1, e2 error
	verifSched(true, 2)
	verifGo(func() { n1, e1 = c1.Writev([][]byte{a[:1], a[1:]}) })
	verifGo(func() { n2, e2 = c2.Writev([][]byte{b[:2], b[2:]}) })
	verifJoin()
	verifAssertD(e1 == nil && n1 == 3 && e2 == nil && n2 == 3, "error-free-call-accepts-whole-input", "two-connections")
	for i := 0; i < 2; i++ {
		_ = c1.flush()
		_ = c2.flush()
	}
	verifAssertD(len(f1.wire) == 3 && verifEqBytes(f1.wire, a), "wire-equals-accepted-stream", "two-connections/first")
	verifAssertD(len(f2.wire) == 3 && verifEqBytes(f2.wire, b), "wire-equals-accepted-stream", "two-connections/second")
	verifAssert(false, "witness")
}

package nbio

import (
	"errors"
	"io"
	"net"
	"syscall"
	"time"
)

// C03 — connection lifecycle: exactly one close notification, never before
// open, truthful cause; closed operations fail without touching the fd;
// asynchronous dial reports its outcome exactly once and truthfully.

var (
	verifErrA = errors.New("verif: close cause A")
	verifErrB = errors.New("verif: close cause B")
)

type verifLife struct {
	g       *Engine
	opens   map[*Conn]int
	closes  map[*Conn]int
	errs    map[*Conn]error
	order   []string
	opened  bool
	dialing bool // dialed connections are announced by the dial callback, not by OnOpen
}

func verifLifeEngine(mode int, conf Config) *verifLife {
	vkReset()
	MaxOpenFiles = 32
	c2 := verifEngineConf(mode)
	c2.MaxWriteBufferSize = conf.MaxWriteBufferSize
	g := NewEngine(c2)
	l := &verifLife{g: g, opens: map[*Conn]int{}, closes: map[*Conn]int{}, errs: map[*Conn]error{}}
	g.OnOpen(func(c *Conn) {
		l.opens[c]++
		verifAssertD(l.closes[c] == 0, "no-close-before-open", "")
	})
	g.OnClose(func(c *Conn, err error) {
		l.closes[c]++
		l.errs[c] = err
		if !l.dialing {
			verifAssertD(l.opens[c] == 1, "close-only-after-open", "")
		}
	})
	return l
}

func (l *verifLife) finalChecks(c *Conn, f *vkFd, causes []error, name string) {
	verifAssertD(l.closes[c] == 1, "exactly-one-close-notification", name)
	verifAssertD(f.closes == 1 && !f.open, "descriptor-closed-exactly-once", name)
	got := l.errs[c]
	ok := false
	for _, e := range causes {
		if got == e || (got != nil && e != nil && errors.Is(got, e)) {
			ok = true
		}
	}
	verifAssertD(ok, "close-error-is-one-of-the-causes", name)
	// after close: operations fail with a closed indication, the fd is not touched
	bad0 := len(vk.badOps)
	n, err := c.Write([]byte("z"))
	verifAssertD(errors.Is(err, net.ErrClosed) && n <= 0, "write-after-close-fails", name)
	_, err = c.Writev([][]byte{[]byte("a"), []byte("b")})
	verifAssertD(errors.Is(err, net.ErrClosed), "writev-after-close-fails", name)
	ran := false
	okx := c.Execute(func() { ran = true })
	verifAssertD(!okx && !ran, "execute-after-close-refused", name)
	verifAssertD(c.Close() == nil, "close-is-idempotent", name)
	verifJoin()
	verifAssertD(l.closes[c] == 1, "exactly-one-close-notification", name+"/after-second-close")
	verifAssertD(len(vk.badOps) == bad0 && bad0 == 0, "no-syscall-on-closed-descriptor", name)
}

func verifC03Closers(preempt int) {
	verifBound("closers", 2)
	verifBound("preemptions", preempt)
	l := verifLifeEngine(verifChoose("mode", 3), Config{})
	verifSched(true, preempt)
	if err := l.g.Start(); err != nil {
		return
	}
	f := vk.newFd(vkSockStream)
	c := &Conn{fd: f.fd, typ: ConnTypeTCP}
	if l.g.pollers[0].addConn(c) != nil {
		return
	}
	withPeer := verifChoose("peer_close", 2) == 1
	var rets []error
	verifGo(func() { rets = append(rets, c.CloseWithError(verifErrA)) })
	verifGo(func() { rets = append(rets, c.CloseWithError(verifErrB)) })
	if withPeer {
		f.peerClose()
	}
	verifJoin()
	l.finalChecks(c, f, []error{verifErrA, verifErrB, io.EOF}, "closers")
}

func verifHarness_C03_concurrent_closers_Q() {
	verifC03Closers(1)
	verifAssert(false, "witness")
}

func verifHarness_C03_concurrent_closers_T() {
	verifC03Closers(2)
	verifAssert(false, "witness")
}

func verifHarness_C03_peer_close_and_reset() {
	l := verifLifeEngine(verifChoose("mode", 3), Config{})
	verifSched(true, 2)
	if err := l.g.Start(); err != nil {
		return
	}
	f := vk.newFd(vkSockStream)
	c := &Conn{fd: f.fd, typ: ConnTypeTCP}
	if l.g.pollers[0].addConn(c) != nil {
		return
	}
	reset := verifChoose("reset", 2) == 1
	if verifChoose("data_first", 2) == 1 {
		f.peerSend(verifBytes("in", 2))
	}
	if reset {
		f.peerReset()
		verifJoin()
		l.finalChecks(c, f, []error{syscall.ECONNRESET, io.EOF}, "peer-reset")
	} else {
		f.peerClose()
		verifJoin()
		l.finalChecks(c, f, []error{io.EOF}, "peer-close")
	}
	verifAssert(false, "witness")
}

func verifHarness_C03_write_failure_and_overflow() {
	overflow := verifChoose("overflow", 2) == 1
	conf := Config{}
	if overflow {
		conf.MaxWriteBufferSize = 2
	}
	l := verifLifeEngine(verifChoose("mode", 3), conf)
	verifSched(true, 2)
	if err := l.g.Start(); err != nil {
		return
	}
	f := vk.newFd(vkSockStream)
	c := &Conn{fd: f.fd, typ: ConnTypeTCP}
	if l.g.pollers[0].addConn(c) != nil {
		return
	}
	// every write entry point ends the connection the same way
	call := verifChoose("write_call", 3)
	doWrite := func(b []byte) (int, error) {
		switch call {
		case 1:
			return c.Writev([][]byte{b[:1], b[1:]})
		case 2:
			n, err := c.Sendfile(vkNewFile(b, 0), 0)
			return int(n), err
		}
		return c.Write(b)
	}
	if overflow {
		if call == 2 {
			return // a queued file is not counted against the write-buffer bound
		}
		_, err := doWrite(verifBytes("big", 3))
		verifAssertD(errors.Is(err, ErrOverflow) || errors.Is(err, errOverflow), "overflowing-write-reports-overflow", "")
		verifJoin()
		l.finalChecks(c, f, []error{errOverflow}, "overflow")
	} else {
		f.werr = syscall.EPIPE
		racing := verifChoose("racing_close", 2) == 1
		if racing {
			verifGo(func() { _ = c.CloseWithError(verifErrA) })
		}
		_, err := doWrite(verifBytes("w", 2))
		verifJoin()
		if !racing {
			verifAssertD(errors.Is(err, syscall.EPIPE), "failed-write-reports-error", "")
		}
		l.finalChecks(c, f, []error{syscall.EPIPE, verifErrA}, "write-failure")
	}
	verifAssert(false, "witness")
}

func verifHarness_C03_flush_failure() {
	l := verifLifeEngine(verifChoose("mode", 3), Config{})
	vk.regime = vkBuffered
	verifSched(true, 2)
	if err := l.g.Start(); err != nil {
		return
	}
	f := vk.newFd(vkSockStream)
	f.sendSpace = 1
	c := &Conn{fd: f.fd, typ: ConnTypeTCP}
	if l.g.pollers[0].addConn(c) != nil {
		return
	}
	_, _ = c.Write(verifBytes("w", 3))
	verifJoin()
	// the peer resets while a backlog is pending: the poller's flush fails
	f.peerReset()
	verifJoin()
	l.finalChecks(c, f, []error{syscall.EPIPE, syscall.ECONNRESET, io.EOF}, "flush-failure")
	verifAssert(false, "witness")
}

func verifHarness_C03_deadline_vs_close() {
	l := verifLifeEngine(0, Config{})
	verifSched(true, 2)
	if err := l.g.Start(); err != nil {
		return
	}
	f := vk.newFd(vkSockStream)
	c := &Conn{fd: f.fd, typ: ConnTypeTCP}
	if l.g.pollers[0].addConn(c) != nil {
		return
	}
	_ = c.SetReadDeadline(time.Now().Add(time.Millisecond))
	verifGo(func() { _ = c.CloseWithError(verifErrA) })
	// the timer callback runs on its own goroutine, racing the closer
	verifGo(func() { verifFireTimer(0) })
	verifJoin()
	l.finalChecks(c, f, []error{verifErrA, errReadTimeout}, "deadline-vs-close")
	verifAssert(false, "witness")
}

// asynchronous dial: outcome reported exactly once, success only if connected
func verifHarness_C03_dial_outcomes() {
	l := verifLifeEngine(verifChoose("mode", 3), Config{})
	l.dialing = true
	verifSched(true, 1)
	if err := l.g.Start(); err != nil {
		return
	}
	outcome := verifChoose("outcome", 3) // 0 connected, 1 refused, 2 never (timeout)
	calls := 0
	var cbErr error
	var cbConn *Conn
	timeout := time.Duration(0)
	if outcome == 2 {
		timeout = time.Second
	}
	err := l.g.DialAsyncTimeout("unix", "/verif.sock", timeout, func(c *Conn, err error) {
		calls++
		cbErr = err
		cbConn = c
	})
	verifAssertD(err == nil, "dial-starts", "")
	if err != nil {
		return
	}
	verifJoin()
	var f *vkFd
	for _, x := range vk.fds {
		if x != nil && x.kind == vkSockStream {
			f = x
		}
	}
	switch outcome {
	case 0:
		f.connectDone(0)
		verifJoin()
		verifAssertD(calls == 1, "dial-callback-exactly-once", "connected")
		verifAssertD(cbErr == nil && cbConn != nil, "connected-dial-reports-success", "")
	case 1:
		f.connectDone(syscall.ECONNREFUSED)
		verifJoin()
		verifAssertD(calls == 1, "dial-callback-exactly-once", "refused")
		verifAssertD(cbErr != nil, "refused-dial-reports-failure", "")
	case 2:
		// nothing happens until the dial timeout fires
		for i := 0; i < verifTimerCount(); i++ {
			if verifTimerArmed(i) {
				verifFireTimer(i)
			}
		}
		verifJoin()
		verifAssertD(calls == 1, "dial-callback-exactly-once", "timed-out")
		verifAssertD(cbErr != nil, "timed-out-dial-reports-failure", "")
	}
	verifAssert(false, "witness")
}


// registration failure: EPOLL_CTL_ADD fails after the open notification
func verifHarness_C03_registration_failure() {
	l := verifLifeEngine(verifChoose("mode", 3), Config{})
	verifSched(true, 1)
	if err := l.g.Start(); err != nil {
		return
	}
	f := vk.newFd(vkSockStream)
	vk.failAdd[f.fd] = true
	c := &Conn{fd: f.fd, typ: ConnTypeTCP}
	err := l.g.pollers[0].addConn(c)
	verifAssertD(err != nil, "failed-registration-is-reported", "")
	verifJoin()
	verifAssertD(l.opens[c] == 1 && l.closes[c] == 1, "exactly-one-close-notification", "registration-failure")
	verifAssertD(f.closes == 1 && !f.open, "descriptor-closed-exactly-once", "registration-failure")
	verifAssert(false, "witness")
}

// UDP peer sessions: one open and exactly one close notification per session,
// whatever ends it — Close from the application (twice, possibly from another
// goroutine), the UDP read timeout, or the listener being closed with sessions
// alive; a remote that talks again after its session ended gets a new session.
func verifHarness_C03_udp_sessions() {
	verifBound("remotes", 2)
	verifBound("preemptions", 1)
	vkReset()
	MaxOpenFiles = 32
	conf := Config{NPoller: 1, ReadBufferSize: 8}
	withTimeout := verifChoose("udp_read_timeout", 2) == 1
	if withTimeout {
		conf.UDPReadTimeout = time.Second
	}
	g := NewEngine(conf)
	opened := map[*Conn]int{}
	closed := map[*Conn]int{}
	closedBeforeOpen := false
	var order []*Conn
	g.OnOpen(func(c *Conn) {
		opened[c]++
		order = append(order, c)
	})
	g.OnClose(func(c *Conn, err error) {
		if opened[c] == 0 {
			closedBeforeOpen = true
		}
		closed[c]++
	})
	var last *Conn
	g.OnData(func(c *Conn, data []byte) { last = c })
	verifSched(true, 1)
	if err := g.Start(); err != nil {
		verifFail("engine-start-failed", "")
		return
	}
	f := vk.newFd(vkSockDgram)
	srv := &Conn{fd: f.fd, typ: ConnTypeUDPServer}
	srv.connUDP = &udpConn{parent: srv, conns: map[udpAddrKey]*Conn{}}
	if err := g.pollers[0].addConn(srv); err != nil {
		verifFail("addconn-failed", "")
		return
	}
	a1 := &syscall.SockaddrInet4{Port: 1001, Addr: [4]byte{10, 0, 0, 1}}
	a2 := &syscall.SockaddrInet4{Port: 1002, Addr: [4]byte{10, 0, 0, 2}}
	f.peerDatagram([]byte("x"), a1)
	verifJoin()
	s1 := last
	f.peerDatagram([]byte("y"), a2)
	verifJoin()
	s2 := last
	if s1 == nil || s2 == nil || s1 == s2 {
		verifFail("sessions-not-created", "")
		return
	}
	how := verifChoose("end_of_session_1", 4)
	switch how {
	case 0: // the application closes it, twice
		_ = s1.Close()
		_ = s1.Close()
	case 1: // two goroutines close it while the poller delivers another datagram
		verifGo(func() { _ = s1.Close() })
		verifGo(func() { _ = s1.CloseWithError(ErrReadTimeout) })
		f.peerDatagram([]byte("z"), a2)
	case 2: // nothing: it lives until the listener goes away (or its timeout)
	case 3: // the listener is closed while a datagram for session 2 is pending
		f.peerDatagram([]byte("z"), a2)
		verifGo(func() { _ = srv.Close() })
	}
	verifJoin()
	if withTimeout {
		// every read timeout that is still armed expires
		for i := 0; i < verifTimerCount(); i++ {
			if verifTimerArmed(i) {
				verifFireTimer(i)
				verifJoin()
			}
		}
	}
	if how == 0 || how == 1 {
		verifAssertD(closed[s1] == 1, "udp-session-closed-exactly-once", "by-application")
		_, werr := s1.Write([]byte("w"))
		verifAssertD(werr != nil, "write-after-close-fails", "udp-session")
		if !withTimeout {
			// the same remote talks again: a new session, a new open
			f.peerDatagram([]byte("again"), a1)
			verifJoin()
			verifAssertD(last != nil && last != s1 && opened[last] == 1, "new-session-after-close", "")
			verifReach("remote-returns-after-close")
		}
	}
	if withTimeout && how != 3 {
		verifAssertD(closed[s2] == 1, "udp-session-closed-exactly-once", "by-read-timeout")
		verifReach("session-timed-out")
	}
	_ = srv.Close()
	_ = srv.Close()
	verifJoin()
	for _, c := range order {
		verifAssertD(opened[c] == 1, "udp-session-opened-exactly-once", "")
		verifAssertD(closed[c] == 1, "udp-session-closed-exactly-once", "at-listener-close")
	}
	verifAssertD(!closedBeforeOpen, "no-close-before-open", "udp")
	verifAssertD(opened[srv] == 0 && closed[srv] == 0, "listener-is-not-a-session", "")
	g.Stop()
	verifAssert(false, "witness")
}

// a dialled UDP socket (its own connection, not a peer session) that has
// received datagrams — so its read loop has ended on EAGAIN at least once — is
// closed by the application, by its read deadline, or by Close: the close
// notification reports that cause, not a left-over from reading.
func verifHarness_C03_udp_dialed_close_cause() {
	verifBound("preemptions", 1)
	vkReset()
	MaxOpenFiles = 32
	g := NewEngine(Config{NPoller: 1, ReadBufferSize: 8})
	var causes []error
	opens, datagrams := 0, 0
	g.OnOpen(func(c *Conn) { opens++ })
	g.OnData(func(c *Conn, data []byte) { datagrams++ })
	g.OnClose(func(c *Conn, err error) { causes = append(causes, err) })
	verifSched(true, 1)
	if err := g.Start(); err != nil {
		verifFail("engine-start-failed", "")
		return
	}
	f := vk.newFd(vkSockDgram)
	c := &Conn{fd: f.fd, typ: ConnTypeUDPClientFromDial}
	c.connUDP = &udpConn{parent: c}
	if err := g.pollers[0].addConn(c); err != nil {
		verifFail("addconn-failed", "")
		return
	}
	f.peerDatagram([]byte("hi"), &syscall.SockaddrInet4{Port: 9, Addr: [4]byte{10, 0, 0, 9}})
	verifJoin()
	verifAssertD(datagrams == 1, "datagram-delivered", "udp-dialed")
	how := verifChoose("closed_by", 3)
	switch how {
	case 0:
		_ = c.CloseWithError(verifErrA)
	case 1:
		_ = c.Close()
	case 2:
		_ = c.SetReadDeadline(time.Unix(0, verifNow()).Add(time.Second))
		for i := 0; i < verifTimerCount(); i++ {
			if verifTimerArmed(i) {
				verifFireTimer(i)
			}
		}
	}
	verifJoin()
	verifAssertD(len(causes) == 1, "exactly-one-close-notification", "udp-dialed")
	if len(causes) == 1 {
		switch how {
		case 0:
			verifAssertD(errors.Is(causes[0], verifErrA), "close-error-is-first-cause", "udp-dialed/application-error")
		case 1:
			verifAssertD(!errors.Is(causes[0], syscall.EAGAIN), "close-error-is-first-cause", "udp-dialed/plain-close")
		case 2:
			verifAssertD(errors.Is(causes[0], errReadTimeout), "close-error-is-first-cause", "udp-dialed/read-deadline")
		}
	}
	g.Stop()
	verifAssert(false, "witness")
}

// DialAsync whose registration with the poller fails (epoll_ctl ADD refused):
// the failure is reported ONCE — by the returned error — the callback is not
// invoked on top of it, no close notification is delivered for a connection
// that never opened, and the engine can still be stopped.
func verifHarness_C03_dial_registration_failure() {
	verifBound("preemptions", 1)
	vkReset()
	MaxOpenFiles = 32
	mode := verifChoose("mode", 3)
	g := NewEngine(verifEngineConf(mode))
	opens, closes := 0, 0
	g.OnOpen(func(c *Conn) { opens++ })
	g.OnClose(func(c *Conn, err error) { closes++ })
	verifSched(true, 1)
	if err := g.Start(); err != nil {
		verifFail("engine-start-failed", "")
		return
	}
	vk.onNewSocket = func(f *vkFd) { vk.failAdd[f.fd] = true }
	calls := 0
	timeout := time.Duration(0)
	if verifChoose("dial_timeout", 2) == 1 {
		timeout = time.Second
	}
	err := g.DialAsyncTimeout("unix", "/verif.sock", timeout, func(c *Conn, err error) { calls++ })
	verifJoin()
	reports := calls
	if err != nil {
		reports++
	}
	verifAssertD(reports == 1, "dial-outcome-reported-exactly-once", "registration-failure")
	verifAssertD(closes == 0 && opens == 0, "no-close-notification-without-open", "dial-registration-failure")
	for _, f := range vk.fds {
		if f != nil && f.kind == vkSockStream {
			verifAssertD(!f.open, "every-descriptor-released", "dial-registration-failure")
		}
	}
	verifStepBudget(400000)
	g.Stop()
	verifStepBudgetEnd()
	verifAssert(false, "witness")
}

// a dial with a timeout whose connect completes at any moment — also while
// DialAsyncTimeout is still setting things up: once success has been reported,
// the dial timeout must not close the established connection later.
func verifHarness_C03_dial_timeout_vs_fast_connect() {
	verifBound("preemptions", 2)
	vkReset()
	MaxOpenFiles = 32
	mode := verifChoose("mode", 3)
	g := NewEngine(verifEngineConf(mode))
	closes := 0
	var closeErr error
	g.OnClose(func(c *Conn, err error) { closes++; closeErr = err })
	verifSched(true, 2)
	if err := g.Start(); err != nil {
		verifFail("engine-start-failed", "")
		return
	}
	// the peer accepts at any moment after connect(2) was issued (its own thread)
	vk.onConnect = func(f *vkFd) { verifGo(func() { f.connectDone(0) }) }
	ok, failed := 0, 0
	err := g.DialAsyncTimeout("unix", "/verif.sock", time.Second, func(c *Conn, err error) {
		if err == nil {
			ok++
		} else {
			failed++
		}
	})
	if err != nil {
		verifFail("dial-starts", "")
		return
	}
	verifJoin()
	verifAssertD(ok+failed == 1, "dial-outcome-reported-exactly-once", "fast-connect")
	// every timer that is still armed expires
	for i := 0; i < verifTimerCount(); i++ {
		if verifTimerArmed(i) {
			verifFireTimer(i)
			verifJoin()
		}
	}
	if ok == 1 {
		verifReach("connected")
		verifAssertD(closes == 0, "no-stale-timer", "dial-timeout-after-success")
		_ = closeErr
	}
	g.Stop()
	verifAssert(false, "witness")
}

// a dial whose connect completes at once (unix socket) and whose peer closes
// right away: the close notification never comes before the dial callback has
// reported the connection.
func verifHarness_C03_immediate_connect_then_peer_close() {
	verifBound("preemptions", 2)
	vkReset()
	MaxOpenFiles = 32
	mode := verifChoose("mode", 3)
	g := NewEngine(verifEngineConf(mode))
	seq := 0
	openAt, closeAt := 0, 0
	g.OnClose(func(c *Conn, err error) { seq++; closeAt = seq })
	verifSched(true, 2)
	if err := g.Start(); err != nil {
		verifFail("engine-start-failed", "")
		return
	}
	vk.connectImmediately = true
	vk.onConnect = func(f *vkFd) { verifGo(func() { f.peerClose() }) }
	ok := 0
	err := g.DialAsyncTimeout("unix", "/verif.sock", 0, func(c *Conn, err error) {
		seq++
		openAt = seq
		if err == nil {
			ok++
		}
	})
	if err != nil {
		verifFail("dial-starts", "")
		return
	}
	verifJoin()
	verifAssertD(openAt > 0, "dial-outcome-reported-exactly-once", "immediate-connect")
	if closeAt > 0 && ok == 1 {
		verifReach("closed-after-connect")
		verifAssertD(openAt < closeAt, "no-close-before-open", "dialed/immediate-connect")
	}
	g.Stop()
	verifAssert(false, "witness")
}

package taskpool

// C19 — task pool: exactly once, bound, panic containment, capacity recovery.

type verifPoolLog struct {
	starts  map[int]int
	ends    map[int]int
	running int
	maxRun  int
	arrived int
}

func verifNewPoolLog() *verifPoolLog {
	return &verifPoolLog{starts: map[int]int{}, ends: map[int]int{}}
}

func (l *verifPoolLog) task(id int, panics bool) func() {
	return func() {
		l.starts[id]++
		l.running++
		if l.running > l.maxRun {
			l.maxRun = l.running
		}
		verifYield()
		l.running--
		l.ends[id]++
		if panics {
			panic("task panics")
		}
	}
}

// barrier submits k mutually waiting tasks; returns true if all of them ran
// together (false: the pool could not run k tasks at once — a deadlock at
// quiescence)
func verifBarrier(tp *TaskPool, k int) bool {
	arrived, done := 0, 0
	for i := 0; i < k; i++ {
		tp.Go(func() {
			arrived++
			verifBlockUntil(func() bool { return arrived >= k })
			done++
		})
	}
	verifJoin()
	return done == k
}

var verifC19CustomCaller = false

func verifC19Burst(bound, queue, ntasks, submitters int, panics bool, preempt int) {
	tp := New(bound, queue)
	if verifC19CustomCaller {
		// the optional third argument: the function through which tasks are called
		tp = New(bound, queue, func(f func()) { f() })
	}
	l := verifNewPoolLog()
	verifSched(true, preempt)
	per := ntasks / submitters
	for s := 0; s < submitters; s++ {
		s := s
		verifGo(func() {
			for j := 0; j < per; j++ {
				id := s*per + j
				pj := false
				if panics && id == 0 {
					pj = verifBool("task_panics")
				}
				tp.Go(l.task(id, pj))
			}
		})
	}
	verifJoin()
	for id := 0; id < per*submitters; id++ {
		verifAssertD(l.starts[id] == 1 && l.ends[id] == 1, "task-runs-exactly-once", "")
	}
	verifAssertD(l.maxRun <= bound, "running-tasks-within-bound", "")
	verifAssertD(tp.concurrent >= 0, "worker-counter-not-negative", "")
	if l.maxRun >= 2 {
		verifReach("parallel")
	}
	// capacity recovery: what a fresh pool of this bound can run together
	// (bound-1, established by the fresh-pool harness) still runs together
	// after the burst
	verifSched(false, 0)
	ok := verifBarrier(tp, bound-1)
	verifAssertD(ok, "parallelism-recovered-after-overload", "")
}

func verifHarness_C19_fresh_pool_barrier() {
	bound := 2 + verifChoose("bound", 3)
	verifBound("bound_max", 4)
	tp := New(bound, 2)
	verifSched(true, 2)
	ok := verifBarrier(tp, bound-1)
	verifAssertD(ok, "fresh-pool-runs-bound-minus-one-together", "")
	verifAssert(false, "witness")
}

func verifHarness_C19_burst_bound3() {
	verifBound("tasks", 4)
	verifBound("preemptions", 2)
	verifC19Burst(3, 2, 4, 1, true, 2)
	verifAssert(false, "witness")
}

func verifHarness_C19_burst_two_submitters_panic_T() {
	verifC19Burst(3, 2, 4, 2, true, 2)
	verifAssert(false, "witness")
}

func verifHarness_C19_burst_bound4_T() {
	verifC19Burst(4, 1, 5, 1, true, 2)
	verifAssert(false, "witness")
}

// every task whose Go returned before Stop was called runs exactly once
func verifHarness_C19_stop_after_submit() {
	bound := 2 + verifChoose("bound", 2)
	tp := New(bound, 2)
	l := verifNewPoolLog()
	verifSched(true, 2)
	n := 2 + verifChoose("tasks", 3)
	for i := 0; i < n; i++ {
		tp.Go(l.task(i, false))
	}
	tp.Stop()
	verifJoin()
	for i := 0; i < n; i++ {
		verifAssertD(l.starts[i] <= 1, "task-runs-at-most-once", "")
		verifAssertD(l.starts[i] == 1, "task-handed-over-before-stop-runs", "")
	}
	verifAssert(false, "witness")
}

// the IO pool hands every task a usable buffer
func verifHarness_C19_io_pool() {
	size := 1 + verifChoose("buf", 4)
	tp := NewIO(2, 2, size)
	verifSched(true, 2)
	got := 0
	ran := 0
	for i := 0; i < 2; i++ {
		tp.Go(func(pb *[]byte) {
			ran++
			got = len(*pb)
		})
	}
	verifJoin()
	verifAssertD(ran == 2 && got == size, "io-task-gets-configured-buffer", "")
	tp.Stop()
	verifAssert(false, "witness")
}

// a pool built with a custom caller function (the optional third argument of
// New): two bursts in a row; the number of tasks running at once stays within
// the bound in the second burst as well (whatever the first one did to the
// pool's bookkeeping).
func verifHarness_C19_two_bursts_custom_caller() {
	verifBound("tasks_per_burst", 4)
	verifBound("preemptions", 1)
	bound := 3
	tp := New(bound, 4, func(f func()) { f() })
	l := verifNewPoolLog()
	verifSched(true, 1)
	for burst := 0; burst < 2; burst++ {
		base := burst * 4
		verifGo(func() {
			for j := 0; j < 4; j++ {
				tp.Go(l.task(base+j, false))
			}
		})
		verifJoin()
	}
	for id := 0; id < 8; id++ {
		verifAssertD(l.starts[id] == 1 && l.ends[id] == 1, "task-runs-exactly-once", "custom-caller")
	}
	verifAssertD(l.maxRun <= bound, "running-tasks-within-bound", "custom-caller")
	verifAssert(false, "witness")
}

package websocket

import (
	"bufio"
	"net"
	"net/http"
	"net/url"
	"strings"

	"github.com/lesismal/nbio"
	"github.com/lesismal/nbio/mempool"
)

// C14 — callbacks ordered and exactly once; concurrent writes stay whole.

// verifCheckFrameStream decodes the bytes the fake connection received and
// checks that they are a sequence of whole messages: each message's frames are
// contiguous (first frame carries the opcode, continuations follow, FIN ends
// it), and each written message appears exactly once.
func verifCheckFrameStream(wire []byte, want map[byte]int, name string) {
	pos := 0
	inMsg := false
	var cur []byte
	seen := map[byte]int{}
	for pos < len(wire) {
		f := verifDecodeFrame(wire[pos:])
		verifAssertD(f.ok, "peer-sees-whole-frames", name)
		if !f.ok {
			return
		}
		pos += f.total
		if !inMsg {
			verifAssertD(f.opcode == int(BinaryMessage), "message-starts-with-data-frame", name)
			cur = nil
		} else {
			verifAssertD(f.opcode == 0, "frames-of-one-message-are-contiguous", name)
		}
		cur = append(cur, f.payload...)
		inMsg = !f.fin
		if f.fin {
			// all payload bytes of one message carry the writer's tag
			for _, b := range cur {
				verifAssertD(b == cur[0], "message-payload-not-interleaved", name)
			}
			if len(cur) > 0 {
				seen[cur[0]]++
			}
		}
	}
	verifAssertD(!inMsg, "last-message-complete", name)
	for tag, n := range want {
		verifAssertD(seen[tag] == n, "each-message-on-the-wire-exactly-once", name)
	}
}

func verifC14Writers(async bool, writers int, queueMax int, preempt int, name string) {
	ep := verifNewEndpoint(false, false, 0, nil)
	if async {
		ep.u.BlockingModSendQueueInitSize = 2
		ep.u.BlockingModSendQueueMaxSize = uint16(queueMax)
		ep.c = newConn(ep.u, ep.fake, "", false, true, false)
		ep.c.Execute = func(f func()) bool { f(); return true }
	}
	ep.eng.MaxWebsocketFramePayloadSize = 2
	ep.fake.yield = true
	verifSched(true, preempt)
	want := map[byte]int{}
	errs := map[byte]error{}
	for w := 0; w < writers; w++ {
		tag := byte('A' + w)
		verifGo(func() {
			msg := []byte{tag, tag, tag}
			errs[tag] = ep.c.WriteMessage(BinaryMessage, msg)
		})
	}
	verifJoin()
	for tag, err := range errs {
		if err == nil {
			want[tag] = 1
		} else {
			verifAssertD(queueMax > 0, "write-refused-only-when-queue-full", name)
		}
	}
	verifCheckFrameStream(ep.fake.wire(), want, name)
	if async {
		verifAssertD(len(ep.c.sendQueue) == 0, "send-queue-empty-at-quiescence", name)
	}
	verifReach("writers-done")
}

func verifHarness_C14_send_queue_two_writers() {
	verifBound("writers", 2)
	verifBound("preemptions", 2)
	verifC14Writers(true, 2, 0, 2, "send-queue")
	verifAssert(false, "witness")
}

func verifHarness_C14_direct_two_writers() {
	verifC14Writers(false, 2, 0, 2, "direct")
	verifAssert(false, "witness")
}

func verifHarness_C14_send_queue_three_writers_T() {
	verifBound("writers", 3)
	verifC14Writers(true, 3, 0, 2, "send-queue")
	verifAssert(false, "witness")
}

// callbacks: a reader feeds frames, an executor goroutine per job runs the
// callbacks through the real nbio.Conn job queue, a closer ends the connection
// the way nbhttp.Engine does (MustExecute(CloseAndClean)).
func verifHarness_C14_callbacks_ordered() {
	verifBound("frames", 3)
	nbc := nbio.VerifNewConn(func(f func()) { go f() })
	ep := verifNewEndpoint(false, false, 0, nil)
	ep.c.Execute = nbc.Execute
	seq := 0
	running, maxRun := 0, 0
	var order []byte
	closeAt, closes := 0, 0
	lastMsgStart := 0
	ep.u.OnMessage(func(c *Conn, mt MessageType, data []byte) {
		seq++
		lastMsgStart = seq
		running++
		if running > maxRun {
			maxRun = running
		}
		if len(data) > 0 {
			order = append(order, data[0])
		}
		verifYield()
		running--
	})
	ep.c.OnClose(func(c *Conn, err error) {
		closes++
		seq++
		closeAt = seq
		verifAssertD(running == 0, "close-callback-does-not-overlap-message-callback", "")
	})
	verifSched(true, 2)
	verifGo(func() {
		_ = ep.c.Parse([]byte{0x80 | byte(BinaryMessage), 1, '1', 0x80 | byte(BinaryMessage), 1, '2'})
		_ = ep.c.Parse([]byte{0x80 | byte(BinaryMessage), 1, '3'})
	})
	verifGo(func() {
		nbc.MustExecute(func() { ep.c.CloseAndClean(nil) })
	})
	verifJoin()
	verifAssertD(maxRun <= 1, "message-callbacks-run-one-at-a-time", "")
	for i := 1; i < len(order); i++ {
		verifAssertD(order[i-1] < order[i], "message-callbacks-in-wire-order", "")
	}
	verifAssertD(closes == 1, "close-callback-exactly-once", "")
	verifAssertD(closeAt > lastMsgStart, "close-callback-after-message-callbacks", "")
	if len(order) == 3 {
		verifReach("all-delivered")
	}
	verifAssert(false, "witness")
}

// ---- the upgrade itself (scenario 4 of Upgrade: connection hijacked from a
// foreign HTTP server, blocking mode with its own read-loop goroutine): the
// open callback completes before any message callback starts.

type verifHijackWriter struct {
	conn net.Conn
	hdr  http.Header
}

func (w *verifHijackWriter) Header() http.Header        { return w.hdr }
func (w *verifHijackWriter) Write(b []byte) (int, error) { return len(b), nil }
func (w *verifHijackWriter) WriteHeader(code int)        {}
func (w *verifHijackWriter) Hijack() (net.Conn, *bufio.ReadWriter, error) {
	return w.conn, nil, nil
}

// verifReadConn serves the given input to Read (one call each), then blocks
// until closed.
type verifReadConn struct {
	verifFake
	input [][]byte
}

func (c *verifReadConn) Read(b []byte) (int, error) {
	verifYield()
	if len(c.input) > 0 && !c.closed {
		n := copy(b, c.input[0])
		c.input = c.input[1:]
		return n, nil
	}
	verifBlockUntil(func() bool { return c.closed })
	return 0, net.ErrClosed
}

func verifHarness_C14_upgrade_open_before_message() {
	verifBound("preemptions", 2)
	eng := verifWsEngine(mempool.New(64, 1<<20))
	DefaultEngine = eng
	u := NewUpgrader()
	u.Engine = eng
	u.KeepaliveTime = 0
	u.BlockingModAsyncWrite = verifChoose("async_write", 2) == 1
	seq := 0
	openDone, firstMsg := 0, 0
	u.OnOpen(func(c *Conn) {
		verifYield()
		seq++
		openDone = seq
	})
	u.OnMessage(func(c *Conn, mt MessageType, data []byte) {
		seq++
		if firstMsg == 0 {
			firstMsg = seq
		}
	})
	conn := &verifReadConn{input: [][]byte{{0x80 | byte(TextMessage), 2, 'h', 'i'}}}
	conn.failAt = -1
	w := &verifHijackWriter{conn: conn, hdr: http.Header{}}
	r := &http.Request{Method: "GET", Header: http.Header{}, URL: &url.URL{Path: "/ws"}, Host: "h"}
	r.Header.Set("Connection", "Upgrade")
	r.Header.Set("Upgrade", "websocket")
	r.Header.Set("Sec-Websocket-Version", "13")
	r.Header.Set("Sec-Websocket-Key", "dGhlIHNhbXBsZSBub25jZQ==")
	verifSched(true, 2)
	wsc, err := u.Upgrade(w, r, nil)
	verifAssertD(err == nil && wsc != nil, "upgrade-succeeds", "")
	if err != nil {
		return
	}
	// the handshake answer carries the RFC 6455 sample accept key
	hs := string(conn.wire())
	verifAssertD(strings.Contains(hs, "Sec-WebSocket-Accept: s3pPLMBiTxaQ9kYGzzhZRbK+xOo=\r\n"), "handshake-accept-key", "")
	verifJoin()
	verifAssertD(openDone > 0, "open-callback-ran", "")
	if firstMsg > 0 {
		verifReach("message-delivered")
		verifAssertD(openDone < firstMsg, "open-callback-completes-before-first-message-callback", "")
	}
	conn.closed = true
	verifJoin()
	verifAssert(false, "witness")
}

// verifHookedConn is a fake net.Conn whose Close does what the engine does
// when the underlying connection goes away: it queues the WebSocket close
// handling behind the connection's pending callbacks.
type verifHookedConn struct {
	verifFake
	onClose func()
	hooked  bool
}

func (c *verifHookedConn) Close() error {
	already := c.closed
	_ = c.verifFake.Close()
	if !already && c.onClose != nil {
		c.onClose()
	}
	return nil
}

// a write that fails in the send-queue drainer while a message callback is
// still running: the close callback still runs exactly once and only after
// that callback has returned.
func verifHarness_C14_send_queue_write_failure_during_callback() {
	verifBound("preemptions", 2)
	nbc := nbio.VerifNewConn(func(f func()) { go f() })
	ep := verifNewEndpoint(false, false, 0, nil)
	hc := &verifHookedConn{}
	hc.failAt = 0 // the first write on the wire fails
	ep.u.BlockingModSendQueueInitSize = 2
	ep.u.BlockingModSendQueueMaxSize = 0
	ep.c = newConn(ep.u, hc, "", false, true, false)
	ep.c.Execute = nbc.Execute
	hc.onClose = func() { nbc.MustExecute(func() { ep.c.CloseAndClean(net.ErrClosed) }) }
	running, closes := 0, 0
	msgs := 0
	ep.u.OnMessage(func(c *Conn, mt MessageType, data []byte) {
		running++
		msgs++
		// the callback answers; the answer goes through the send queue
		_ = c.WriteMessage(BinaryMessage, []byte{'r'})
		verifYield()
		running--
	})
	ep.c.OnClose(func(c *Conn, err error) {
		closes++
		verifAssertD(running == 0, "close-callback-does-not-overlap-message-callback", "write-failure")
	})
	verifSched(true, 2)
	verifGo(func() {
		_ = ep.c.Parse([]byte{0x80 | byte(BinaryMessage), 1, '1'})
	})
	verifJoin()
	// in queued-write mode the close is delayed by a timer (BlockingModAsyncCloseDelay)
	for i := 0; i < verifTimerCount(); i++ {
		if verifTimerArmed(i) {
			verifFireTimer(i)
			verifJoin()
		}
	}
	verifAssertD(msgs == 1, "message-callback-ran", "")
	verifAssertD(hc.closed, "failed-write-closes-connection", "")
	verifAssertD(closes == 1, "close-callback-exactly-once", "write-failure")
	verifAssert(false, "witness")
}

// a BOUNDED send queue (BlockingModSendQueueMaxSize > 0) that fills up while
// fragmented messages are being queued: a message is either on the wire whole
// or refused whole.
func verifHarness_C14_send_queue_bounded_two_writers() {
	verifBound("writers", 2)
	verifBound("queue_max", 2)
	verifBound("preemptions", 1)
	verifC14Writers(true, 2, 2, 1, "send-queue-bounded")
	verifAssert(false, "witness")
}

// one writer, a message of three frames against a bounded send queue of two:
// if the message cannot be queued whole it must not be queued in part (the
// peer would be left inside a fragmented message that never ends).
func verifHarness_C14_send_queue_bounded_long_message() {
	verifBound("queue_max", 2)
	verifBound("preemptions", 1)
	ep := verifNewEndpoint(false, false, 0, nil)
	ep.u.BlockingModSendQueueInitSize = 2
	ep.u.BlockingModSendQueueMaxSize = 2
	ep.c = newConn(ep.u, ep.fake, "", false, true, false)
	ep.c.Execute = func(f func()) bool { f(); return true }
	ep.eng.MaxWebsocketFramePayloadSize = 2
	ep.fake.yield = true
	verifSched(true, 1)
	var e1, e2 error
	verifGo(func() {
		e1 = ep.c.WriteMessage(BinaryMessage, []byte{'A', 'A', 'A', 'A', 'A'}) // three frames
		e2 = ep.c.WriteMessage(BinaryMessage, []byte{'B'})
	})
	verifJoin()
	want := map[byte]int{}
	if e1 == nil {
		want['A'] = 1
	} else {
		verifReach("long-message-refused")
	}
	if e2 == nil {
		want['B'] = 1
	}
	verifCheckFrameStream(ep.fake.wire(), want, "send-queue-bounded/long-message")
	verifAssert(false, "witness")
}

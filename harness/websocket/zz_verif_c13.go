package websocket

import (
	"errors"
	"unicode/utf8"
)

func utf8Valid2(b []byte) bool { return utf8.Valid(b) }

// C13 — frame validation against an RFC 6455 reference acceptor.

const verifC13MaxPayload = 4

// verifProtocolFailure tells whether the endpoint failed the connection for a
// protocol violation (as opposed to completing a normal close handshake).
func verifProtocolFailure(ep *verifEndpoint, perr error) bool {
	if perr != nil {
		return true
	}
	ce := ep.c.closeErr
	if ce == nil {
		return false
	}
	var closeErr *CloseError
	if errors.As(ce, &closeErr) {
		return false
	}
	return ep.fake.closed
}

// verifC13Frame feeds one fully symbolic frame to an endpoint in the given
// fragmentation state and compares the outcome with the reference acceptor.
//
//	state 0: fresh; 1: inside a fragmented text message; 2: inside a fragmented binary message
func verifC13Frame(state int, compression bool, client bool) {
	verifC13FrameAfter(state, compression, client, -1, false)
}

// verifC13FrameAfter: as verifC13Frame, but (firstOp >= 0) the fragmentation
// state is whatever a concrete first frame (opcode firstOp, FIN firstFin,
// payload "a") leaves behind — including states no well-behaved peer creates
// (a non-final continuation with nothing to continue).
func verifC13FrameAfter(state int, compression bool, client bool, firstOp int, firstFin bool) {
	verifC13FrameAfterN(state, compression, client, firstOp, firstFin, 1)
}

// firstLen: payload length (0 or 1) of the frame(s) that establish the state
func verifC13FrameAfterN(state int, compression bool, client bool, firstOp int, firstFin bool, firstLen int) {
	ep := verifNewEndpoint(client, compression, 0, nil)
	c := ep.c
	var prior []byte
	strayOpen := false
	if firstOp >= 0 {
		b0 := byte(firstOp)
		if firstFin {
			b0 |= 0x80
		}
		first := []byte{b0, byte(firstLen)}
		if firstLen == 1 {
			first = append(first, 'a')
		}
		err := c.Parse(first)
		failed0 := verifProtocolFailure(ep, err)
		isCtl := firstOp >= 8
		switch {
		case isCtl && !firstFin, firstOp == 0 && firstFin:
			verifAssertD(failed0, "rejects-what-rfc-forbids", "first-frame")
			return
		case firstOp == 8:
			return // nothing is demanded after a close frame
		case firstOp == 0 && !firstFin:
			// a fragmented message that never started: must be failed at the
			// latest when it ends
			if failed0 {
				return
			}
			strayOpen = true
			state = 3
			prior = first[2:]
		case firstOp == 1 && !firstFin:
			state, prior = 1, first[2:]
		case firstOp == 2 && !firstFin:
			state, prior = 2, first[2:]
		default:
			verifAssertD(!failed0, "accepts-what-rfc-allows", "first-frame")
			if failed0 {
				return
			}
			state = 0
		}
		ep.msgs = nil
	} else if state != 0 {
		op := byte(TextMessage)
		if state == 2 {
			op = byte(BinaryMessage)
		}
		first := []byte{op, byte(firstLen)}
		if firstLen == 1 {
			first = append(first, 'a')
		}
		prior = first[2:]
		err := c.Parse(first)
		verifAssert(err == nil && len(ep.msgs) == 0 && !ep.fake.closed, "setup-first-fragment-accepted")
	}
	b0 := verifByte("b0")
	b1 := verifByte("b1")
	fin := b0&0x80 != 0
	rsv1 := b0&0x40 != 0
	rsv2 := b0&0x20 != 0
	rsv3 := b0&0x10 != 0
	op := int(b0 & 0x0f)
	masked := b1&0x80 != 0
	l7 := int(b1 & 0x7f)

	stream := []byte{b0, b1}
	declared := uint64(l7)
	topBit := false
	extForm := 0
	if l7 == 126 {
		ext := verifBytes("ext16", 2)
		stream = append(stream, ext...)
		declared = uint64(ext[0])<<8 | uint64(ext[1])
		extForm = 1
	} else if l7 == 127 {
		ext := verifBytes("ext64", 8)
		stream = append(stream, ext...)
		declared = 0
		for i := 0; i < 8; i++ {
			declared = declared<<8 | uint64(ext[i])
		}
		topBit = ext[0]&0x80 != 0
		extForm = 2
	}
	var key []byte
	if masked {
		key = verifBytes("key", 4)
		stream = append(stream, key...)
	}
	complete := declared <= verifC13MaxPayload
	n := verifC13MaxPayload
	if complete {
		n = verifConc(int(declared))
	}
	wire := verifBytes("payload", n)
	stream = append(stream, wire...)
	payload := make([]byte, n) // unmasked
	for i := range payload {
		payload[i] = wire[i]
		if masked {
			payload[i] ^= key[i&3]
		}
	}
	// compressed data frames need a real inflater: outside this property's claim
	isData := op <= 2
	verifAssume(!verifAnd(compression, verifAnd(rsv1, isData)))

	nwBefore := len(ep.fake.writes)
	err := c.Parse(stream)
	failed := verifProtocolFailure(ep, err)
	if strayOpen {
		// whatever ends or continues the never-started message must not deliver it
		endsIt := verifAnd(b0&0x80 != 0, b0&0x0f == 0)
		if complete {
			verifAssertD(verifImplies(endsIt, failed), "rejects-what-rfc-forbids", "continuation-without-start/ended")
			verifAssertD(len(ep.msgs) == 0, "no-delivery-of-offending-frame", "continuation-without-start")
		}
		return
	}

	// ---- reference acceptor (RFC 6455 5.2, 5.4, 5.5, 7.4.1, 8.1), one rule at a time
	isCtl := op >= 8
	expecting := state != 0
	reservedOp := verifOr(verifAnd(op >= 3, op <= 7), op >= 11)
	rRsv := verifOr(verifOr(rsv2, rsv3), verifAnd(rsv1, !compression))
	rCtlFrag := verifAnd(isCtl, !fin)
	rCtlLong := verifAnd(isCtl, declared > 125)
	rNewData := verifAnd(expecting, verifOr(op == 1, op == 2))
	// a continuation frame with nothing to continue; only decidable on this
	// frame alone when it is final (a non-final one is failed when the
	// message ends: covered by the sequence harness)
	rStray := verifAnd(!expecting, verifAnd(op == 0, fin))
	rej := verifOr(rRsv, verifOr(reservedOp, verifOr(rCtlFrag, verifOr(rCtlLong, verifOr(topBit, verifOr(rNewData, rStray))))))
	headerRej := rej
	dontCare := verifAnd(compression, verifAnd(rsv1, !isData)) // RSV1 on control/continuation with compression negotiated
	dontCare = verifOr(dontCare, verifAnd(!expecting, verifAnd(op == 0, !fin)))
	if complete {
		// message-level rules
		textDone := verifAnd(fin, verifOr(verifAnd(!expecting, op == 1), verifAnd(state == 1, op == 0)))
		msg := append(append([]byte(nil), prior...), payload...)
		rUtf8 := verifAnd(textDone, !verifUtf8Valid(msg))
		rCode, rReason := false, false
		if n >= 2 {
			code := int(payload[0])<<8 | int(payload[1])
			legal := verifOr(verifAnd(code >= 1000, code <= 1003), verifAnd(code >= 1007, code <= 1011))
			legal = verifOr(legal, verifAnd(code >= 3000, code <= 4999))
			unassigned := verifAnd(code >= 1012, code <= 1014) // registered after RFC 6455: either behaviour accepted
			dontCare = verifOr(dontCare, verifAnd(op == 8, unassigned))
			rCode = verifAnd(op == 8, verifAnd(!legal, !unassigned))
			rReason = verifAnd(op == 8, !verifUtf8Valid(payload[2:]))
		}
		if n == 1 {
			dontCare = verifOr(dontCare, op == 8)
		}
		rej = verifOr(rej, verifOr(rUtf8, verifOr(rCode, rReason)))
		must := func(rule bool, name string) {
			verifAssertD(verifImplies(verifAnd(rule, !dontCare), failed), "rejects-what-rfc-forbids", name)
		}
		must(rRsv, "reserved-bit")
		must(reservedOp, "reserved-opcode")
		must(rCtlFrag, "fragmented-control-frame")
		must(rCtlLong, "control-frame-over-125")
		must(topBit, "64bit-length-top-bit")
		must(rNewData, "new-data-frame-inside-fragmented-message")
		if n == 0 {
			must(rStray, "final-continuation-without-start/empty-payload")
		} else {
			must(rStray, "final-continuation-without-start/with-payload")
		}
		must(rUtf8, "invalid-utf8-text")
		if n >= 2 {
			code := int(payload[0])<<8 | int(payload[1])
			must(verifAnd(rCode, code < 1000), "illegal-close-code/below-1000")
			must(verifAnd(rCode, verifAnd(code >= 1004, code <= 1006)), "illegal-close-code/1004-1006")
			must(verifAnd(rCode, code == 1015), "illegal-close-code/1015")
			must(verifAnd(rCode, verifAnd(code >= 1016, code <= 2999)), "illegal-close-code/1016-2999")
			must(verifAnd(rCode, code >= 5000), "illegal-close-code/5000-and-above")
		}
		must(rReason, "invalid-utf8-close-reason")
		verifAssertD(verifImplies(verifAnd(!rej, !dontCare), !failed), "accepts-what-rfc-allows", "")
		// nothing that contains an offending frame is ever delivered
		verifAssertD(verifImplies(rej, len(ep.msgs) == 0), "no-delivery-of-offending-frame", "")
		if !failed {
			verifReach("accepted")
		} else {
			verifReach("rejected")
		}
		// replies
		if !failed && op == 9 {
			verifReach("ping")
			ok := len(ep.fake.writes) == nwBefore+1
			if ok {
				f := verifDecodeFrame(ep.fake.writes[nwBefore])
				ok = f.ok && f.opcode == 10 && f.fin && len(f.payload) == n && verifEqBytes(f.payload, payload)
			}
			verifAssertD(ok, "ping-answered-by-pong-with-same-payload", "")
		}
		if !failed && op == 8 && n != 1 {
			verifReach("close")
			ok := len(ep.fake.writes) == nwBefore+1
			if ok {
				f := verifDecodeFrame(ep.fake.writes[nwBefore])
				ok = f.ok && f.opcode == 8 && f.fin
			}
			verifAssertD(ok, "close-answered-by-close", "")
		}
	} else {
		// incomplete frame: only header-level facts can be demanded, and only
		// those that can never be repaired by more input
		verifAssertD(verifImplies(topBit, failed), "rejects-64bit-length-with-top-bit", "")
		verifAssertD(verifImplies(verifAnd(isCtl, verifAnd(!reservedOp, declared > 125)), failed), "rejects-overlong-control-frame", "")
		verifAssertD(len(ep.msgs) == 0, "no-delivery-of-incomplete-frame", "")
		_ = headerRej
	}
	_ = extForm
}

func verifHarness_C13_frame_fresh() {
	verifBound("payload_bytes", verifC13MaxPayload)
	verifC13Frame(0, false, false)
	verifAssert(false, "witness")
}

func verifHarness_C13_frame_in_text_fragments() {
	verifC13Frame(1, false, false)
	verifAssert(false, "witness")
}

func verifHarness_C13_frame_in_binary_fragments() {
	verifC13Frame(2, false, false)
	verifAssert(false, "witness")
}

func verifHarness_C13_frame_fresh_compression_negotiated() {
	verifC13Frame(0, true, false)
	verifAssert(false, "witness")
}

// all 65536 close codes in one symbolic run of the real close handling
func verifHarness_C13_close_codes() {
	hi, lo := verifByte("code_hi"), verifByte("code_lo")
	code := int(hi)<<8 | int(lo)
	got := validCloseCode(code)
	legal := verifOr(verifAnd(code >= 1000, code <= 1003), verifAnd(code >= 1007, code <= 1011))
	legal = verifOr(legal, verifAnd(code >= 3000, code <= 4999))
	unassigned := verifAnd(code >= 1012, code <= 1014)
	verifAssertD(verifImplies(legal, got), "legal-close-code-accepted", "")
	illegal := verifAnd(!legal, !unassigned)
	verifAssertD(verifImplies(verifAnd(illegal, code < 1000), !got), "illegal-close-code-rejected", "below-1000")
	verifAssertD(verifImplies(verifAnd(illegal, verifAnd(code >= 1004, code <= 1006)), !got), "illegal-close-code-rejected", "1004-1006")
	verifAssertD(verifImplies(verifAnd(illegal, code == 1015), !got), "illegal-close-code-rejected", "1015")
	verifAssertD(verifImplies(verifAnd(illegal, verifAnd(code >= 1016, code <= 2999)), !got), "illegal-close-code-rejected", "1016-2999")
	verifAssertD(verifImplies(verifAnd(illegal, code >= 5000), !got), "illegal-close-code-rejected", "5000-and-above")
	verifAssert(false, "witness")
}



func verifHarness_C13_second_frame_after_any_first_T() {
	ops := []int{0, 1, 2, 8, 9, 10}
	op := ops[verifChoose("first_op", len(ops))]
	fin := verifChoose("first_fin", 2) == 1
	verifC13FrameAfterN(0, false, false, op, fin, verifChoose("first_payload_len", 2))
	verifAssert(false, "witness")
}

// fragmented messages opened by an EMPTY first fragment
func verifHarness_C13_frame_after_empty_first_fragment() {
	verifC13FrameAfterN(1+verifChoose("binary", 2), false, false, -1, false, 0)
	verifAssert(false, "witness")
}

// UTF-8 validity is a property of the whole text message: a code point may be
// split between fragments (RFC 6455 5.6, 8.1). Two or three fragments with
// symbolic payloads, four bytes in all: delivered iff the concatenation is valid
// UTF-8, otherwise the connection is failed and nothing is delivered.
func verifHarness_C13_text_utf8_across_fragments() {
	verifBound("message_bytes", 4)
	verifBound("fragments", 3)
	ep := verifNewEndpoint(false, false, 0, nil)
	c := ep.c
	total := 4
	all := verifBytes("text", total)
	// split points: 0 <= s1 <= s2 <= total; two fragments when s2 == total
	s1 := verifChoose("split1", total+1)
	s2 := s1 + verifChoose("split2", total-s1+1)
	frame := func(op byte, fin bool, p []byte) []byte {
		b0 := op
		if fin {
			b0 |= 0x80
		}
		return append([]byte{b0, byte(len(p))}, p...)
	}
	var frames [][]byte
	frames = append(frames, frame(byte(TextMessage), false, all[:s1]))
	if s2 < total {
		frames = append(frames, frame(0, false, all[s1:s2]))
		frames = append(frames, frame(0, true, all[s2:]))
	} else {
		frames = append(frames, frame(0, true, all[s1:]))
	}
	failed := false
	for _, f := range frames {
		err := c.Parse(f)
		if verifProtocolFailure(ep, err) {
			failed = true
			break
		}
	}
	valid := verifUtf8Valid(all)
	verifAssertD(verifImplies(valid, !failed), "accepts-what-rfc-allows", "utf8-split-across-fragments")
	verifAssertD(verifImplies(!valid, failed), "rejects-what-rfc-forbids", "invalid-utf8-text/fragmented")
	if failed {
		verifAssertD(len(ep.msgs) == 0, "no-delivery-of-offending-frame", "utf8")
		verifReach("rejected")
	} else {
		verifAssertD(len(ep.msgs) == 1 && len(ep.msgs[0].data) == total && verifEqBytes(ep.msgs[0].data, all), "valid-text-delivered", "fragmented")
		verifReach("delivered")
	}
	verifAssert(false, "witness")
}

// a control frame coalesced with the frame that follows it in the same read
// (and optionally after a fragment of a message in progress): the pong carries
// the ping's payload, the close echo the close frame's code, whatever bytes
// follow in the buffer.
func verifHarness_C13_control_frame_coalesced_with_next() {
	verifBound("control_payload_max", 3)
	client := verifChoose("endpoint_is_client", 2) == 1
	ep := verifNewEndpoint(client, false, 0, nil)
	kind := verifChoose("control", 3) // ping, pong, close
	var op byte
	var payload []byte
	switch kind {
	case 0:
		op = byte(PingMessage)
		payload = verifBytes("ctl", verifChoose("ctl_len", 4))
	case 1:
		op = byte(PongMessage)
		payload = verifBytes("ctl", verifChoose("ctl_len", 4))
	case 2:
		op = byte(CloseMessage)
		// a legal code (1000..1003) chosen by the solver, no reason
		lo := verifByte("code_lo")
		verifAssume(verifAnd(lo >= 0xE8, lo <= 0xEB))
		payload = []byte{0x03, lo}
	}
	mk := func(b0 byte, p []byte) []byte {
		f := []byte{b0}
		if client { // frames from a server are not masked
			f = append(f, byte(len(p)))
			return append(f, p...)
		}
		key := verifBytes("key", 4)
		f = append(f, 0x80|byte(len(p)))
		f = append(f, key...)
		for i, c := range p {
			f = append(f, c^key[i&3])
		}
		return f
	}
	var stream []byte
	inFragment := verifChoose("inside_fragmented_message", 2) == 1
	if inFragment {
		stream = append(stream, mk(byte(TextMessage), []byte("ab"))...)
	}
	stream = append(stream, mk(0x80|op, payload)...)
	next := []byte("xyz")
	if inFragment {
		stream = append(stream, mk(0x80, next)...) // final continuation
	} else {
		stream = append(stream, mk(0x80|byte(TextMessage), next)...)
	}
	err := ep.c.Parse(stream)
	failed := verifProtocolFailure(ep, err)
	if kind == 2 {
		// answered by a close frame carrying the same code (whether a data frame
		// sent after the peer's close is still delivered is not part of C13)
		got := false
		for _, w := range ep.fake.writes {
			f := verifDecodeFrame(w)
			if f.ok && f.opcode == int(CloseMessage) {
				got = true
				verifAssertD(len(f.payload) >= 2 && f.payload[0] == 0x03 && f.payload[1] == payload[1], "close-echo-carries-the-close-code", "coalesced")
			}
		}
		verifAssertD(got, "close-answered-by-close", "coalesced")
		verifAssert(false, "witness")
		return
	}
	verifAssertD(!failed, "accepts-what-rfc-allows", "control-frame-coalesced")
	if kind == 0 {
		pongs := 0
		for _, w := range ep.fake.writes {
			f := verifDecodeFrame(w)
			if f.ok && f.opcode == int(PongMessage) {
				pongs++
				verifAssertD(len(f.payload) == len(payload) && verifEqBytes(f.payload, payload), "pong-carries-ping-payload", "coalesced")
			}
		}
		verifAssertD(pongs == 1, "ping-answered-by-one-pong", "coalesced")
	}
	want := "xyz"
	if inFragment {
		want = "abxyz"
	}
	verifAssertD(len(ep.msgs) == 1 && string(ep.msgs[0].data) == want, "following-message-delivered", "coalesced")
	verifAssert(false, "witness")
}

// data-frame mode (only OnDataFrame is set, messages are not assembled): the
// per-message state must still end with the FIN frame — the next message has
// its own type, and a continuation frame after a finished message has nothing
// to continue.
func verifHarness_C13_data_frame_mode_message_boundaries() {
	ep := verifNewEndpoint(false, false, 0, nil)
	ep.c.messageHandler = nil
	type fr struct {
		typ  MessageType
		fin  bool
		data []byte
	}
	var frames []fr
	ep.c.OnDataFrame(func(c *Conn, mt MessageType, fin bool, data []byte) {
		frames = append(frames, fr{mt, fin, append([]byte(nil), data...)})
	})
	first := byte(BinaryMessage)
	if verifChoose("first_is_text", 2) == 1 {
		first = byte(TextMessage)
	}
	fragmented := verifChoose("first_fragmented", 2) == 1
	var stream []byte
	if fragmented {
		stream = append(stream, first, 1, 'a', 0x80, 1, 'b')
	} else {
		stream = append(stream, 0x80|first, 1, 'a')
	}
	err := ep.c.Parse(stream)
	verifAssertD(!verifProtocolFailure(ep, err), "accepts-what-rfc-allows", "data-frame-mode/first-message")
	n1 := len(frames)
	switch verifChoose("then", 2) {
	case 0: // a second message of the other type
		second := byte(TextMessage)
		if first == byte(TextMessage) {
			second = byte(BinaryMessage)
		}
		err = ep.c.Parse([]byte{0x80 | second, 1, 'c'})
		verifAssertD(!verifProtocolFailure(ep, err), "accepts-what-rfc-allows", "data-frame-mode/second-message")
		verifAssertD(len(frames) == n1+1, "frame-delivered", "data-frame-mode")
		if len(frames) == n1+1 {
			verifAssertD(frames[n1].typ == MessageType(second), "same-type", "data-frame-mode/second-message")
		}
	case 1: // a continuation with nothing to continue
		err = ep.c.Parse([]byte{0x80, 1, 'c'})
		verifAssertD(verifProtocolFailure(ep, err), "rejects-what-rfc-forbids", "continuation-without-start/data-frame-mode")
		verifAssertD(len(frames) == n1, "no-delivery-of-offending-frame", "data-frame-mode")
	}
	verifAssert(false, "witness")
}

// a ping inside a fragmented message whose assembled part is close to the
// configured message length limit: control frames are not part of the message
// (RFC 6455 5.4), the sequence is allowed and the message fits the limit.
func verifHarness_C13_ping_inside_message_near_length_limit() {
	ep := verifNewEndpoint(false, false, 0, nil)
	ep.u.MessageLengthLimit = 10
	first := append([]byte{byte(BinaryMessage), 9}, []byte("123456789")...)
	err := ep.c.Parse(first)
	verifAssert(err == nil && !ep.fake.closed, "setup-first-fragment-accepted")
	n := 1 + verifChoose("ping_len", 5)
	pp := verifBytes("ping", n)
	ping := append([]byte{0x80 | byte(PingMessage), byte(n)}, pp...)
	err = ep.c.Parse(ping)
	verifAssertD(!verifProtocolFailure(ep, err), "accepts-what-rfc-allows", "ping-inside-message-near-limit")
	pongs := 0
	for _, w := range ep.fake.writes {
		f := verifDecodeFrame(w)
		if f.ok && f.opcode == int(PongMessage) {
			pongs++
			verifAssertD(len(f.payload) == n && verifEqBytes(f.payload, pp), "pong-carries-ping-payload", "near-limit")
		}
	}
	verifAssertD(pongs == 1, "ping-answered-by-one-pong", "near-limit")
	err = ep.c.Parse([]byte{0x80, 1, 'A'})
	verifAssertD(!verifProtocolFailure(ep, err), "accepts-what-rfc-allows", "message-at-the-limit")
	verifAssertD(len(ep.msgs) == 1 && len(ep.msgs[0].data) == 10, "valid-message-delivered", "at-the-limit-around-a-ping")
	verifAssert(false, "witness")
}

package websocket

import (
	"errors"
	"io"

	"github.com/lesismal/nbio/mempool"
)

// C11 (WebSocket part) — pooled-buffer ownership across Parse, message
// dispatch, control-frame replies, write failures and CloseAndClean.

func verifC11Frame(kind int, payload []byte) []byte {
	switch kind {
	case 0: // text, final
		return append([]byte{0x80 | byte(TextMessage), byte(len(payload))}, payload...)
	case 1: // text, first fragment
		return append([]byte{byte(TextMessage), byte(len(payload))}, payload...)
	case 2: // continuation, final
		return append([]byte{0x80, byte(len(payload))}, payload...)
	case 3: // continuation, not final
		return append([]byte{0x00, byte(len(payload))}, payload...)
	case 4: // ping with payload
		return append([]byte{0x80 | byte(PingMessage), byte(len(payload))}, payload...)
	case 5: // ping, empty
		return []byte{0x80 | byte(PingMessage), 0}
	case 6: // close 1000
		return []byte{0x80 | byte(CloseMessage), 2, 0x03, 0xE8}
	case 7: // binary, final, empty
		return []byte{0x80 | byte(BinaryMessage), 0}
	case 8: // reserved bit set: protocol error
		return append([]byte{0x80 | 0x20 | byte(BinaryMessage), byte(len(payload))}, payload...)
	}
	return nil
}

func verifC11Ws(nframes int, dataFrames bool) {
	tr := verifNewTracker()
	if nframes > 2 {
		// the poison trap does not depend on which buffer the pool returns;
		// three-frame sequences run with the LIFO pool to stay within reach
		verifPoolMode(0)
	}
	ep := verifNewEndpoint(false, false, 0, tr)
	if dataFrames {
		ep.u.OnDataFrame(func(c *Conn, mt MessageType, fin bool, data []byte) {
			_ = append([]byte(nil), data...)
		})
	}
	ep.fake.failAt = verifChoose("write_fail_at", 3) - 1
	var stream []byte
	for i := 0; i < nframes; i++ {
		k := verifChoose("frame", 9)
		n := 1 + verifChoose("plen", 2)
		pl := verifBytes("pl", n)
		for j := range pl {
			verifAssume(pl[j] < 0x80)
		}
		stream = append(stream, verifC11Frame(k, pl)...)
	}
	cut := verifConc(verifInt("cut", 1, len(stream)))
	piece := append([]byte(nil), stream[:cut]...)
	err := ep.c.Parse(piece)
	for i := range piece {
		piece[i] = 0xEE
	}
	if err == nil && cut < len(stream) {
		err = ep.c.Parse(append([]byte(nil), stream[cut:]...))
	}
	// what nbhttp.Engine does when the connection ends
	ep.c.CloseAndClean(err)
	ep.c.CloseAndClean(err)
	verifAssertD(ep.closes == 1, "close-callback-once", "")
	verifAssertD(tr.frees <= tr.mallocs, "no-more-frees-than-allocations", "")
	// delivered payloads were copied by the handler before release: still intact
	for _, m := range ep.msgs {
		verifAssertD(len(m.data) <= 2*nframes, "delivered-payload-plausible", "")
	}
}

func verifHarness_C11_ws_two_frames() {
	verifBound("frames", 2)
	verifC11Ws(2, false)
	verifAssert(false, "witness")
}

func verifHarness_C11_ws_two_frames_dataframe_handler() {
	verifC11Ws(2, true)
	verifAssert(false, "witness")
}

func verifHarness_C11_ws_three_frames_T() {
	verifBound("frames", 3)
	verifC11Ws(3, verifChoose("dataframes", 2) == 1)
	verifAssert(false, "witness")
}

// the send path: WriteMessage with fragmentation on a tracked allocator, with
// a failing connection
func verifHarness_C11_ws_write() {
	tr := verifNewTracker()
	ep := verifNewEndpoint(verifChoose("client", 2) == 1, false, 0, tr)
	ep.eng.MaxWebsocketFramePayloadSize = 2
	ep.fake.failAt = verifChoose("write_fail_at", 4) - 1
	n := verifChoose("len", 6)
	err := ep.c.WriteMessage(BinaryMessage, verifBytes("m", n))
	if ep.fake.failAt < 0 {
		verifAssertD(err == nil, "write-succeeds", "")
	}
	verifAssertD(tr.frees == tr.mallocs, "every-frame-buffer-released-exactly-once", "")
	verifAssert(false, "witness")
}


// a compressed final frame whose decompressor fails, ends early or inflates
// beyond the limit: every buffer involved is released exactly once
func verifHarness_C11_ws_decompress_failure() {
	tr := verifNewTracker()
	ep := verifNewEndpoint(false, true, 0, tr)
	ep.u.MessageLengthLimit = 1 + verifChoose("limit", 3)
	r := &verifC11Reader{mode: verifChoose("reader", 4)}
	ep.u.WebsocketDecompressor = func(c *Conn, rd io.Reader) io.ReadCloser { return r }
	frames := [][]byte{
		{0x80 | 0x40 | byte(BinaryMessage), 2, 0x01, 0x02},
		{0x40 | byte(BinaryMessage), 1, 0x01, 0x80, 1, 0x02},
	}
	err := ep.c.Parse(frames[verifChoose("fragmented", 2)])
	ep.c.CloseAndClean(err)
	verifAssertD(tr.frees <= tr.mallocs, "no-more-frees-than-allocations", "")
	verifAssert(false, "witness")
}

type verifC11Reader struct {
	mode  int
	calls int
}

func (r *verifC11Reader) Read(p []byte) (int, error) {
	r.calls++
	switch r.mode {
	case 0: // fails at once
		return 0, errors.New("verif: corrupt deflate stream")
	case 1: // some bytes, then an error
		if r.calls == 1 && len(p) > 0 {
			p[0] = 'x'
			return 1, nil
		}
		return 0, errors.New("verif: corrupt deflate stream")
	case 2: // inflates without end (bomb)
		for i := range p {
			p[i] = 'y'
		}
		return len(p), nil
	}
	// well-behaved: one byte then EOF
	if r.calls == 1 && len(p) > 0 {
		p[0] = 'z'
		return 1, io.EOF
	}
	return 0, io.EOF
}
func (r *verifC11Reader) Close() error { return nil }

// the queued (asynchronous) send path on the tracking allocator: frames wait
// in the send queue while the drainer goroutine writes the one in front; the
// connection is closed, or a write fails, at any point of the drain. Every
// frame buffer has exactly one owner at a time: the queue slot or the drainer.
func verifHarness_C11_ws_send_queue_close_during_drain() {
	verifBound("queued_messages", 3)
	verifBound("preemptions", 2)
	tr := verifNewTracker()
	verifPoolMode(0) // (the owner question does not depend on which free buffer the pool hands out)
	ep := verifNewEndpoint(false, false, 0, tr)
	ep.u.BlockingModSendQueueInitSize = 2
	ep.u.BlockingModSendQueueMaxSize = 0
	ep.c = newConn(ep.u, ep.fake, "", false, true, false)
	ep.c.Execute = func(f func()) bool { f(); return true }
	ep.fake.yield = true // every write on the wire is a scheduling point
	ep.fake.failAt = verifChoose("write_fail_at", 4) - 1
	closer := verifChoose("closed_during_drain", 2) == 1
	verifSched(true, 2)
	verifGo(func() {
		for i := 0; i < 3; i++ {
			_ = ep.c.WriteMessage(BinaryMessage, []byte{byte('a' + i), byte('a' + i)})
		}
	})
	if closer {
		verifGo(func() { ep.c.CloseAndClean(nil) })
	}
	verifJoin()
	for i := 0; i < verifTimerCount(); i++ {
		if verifTimerArmed(i) {
			verifFireTimer(i)
			verifJoin()
		}
	}
	ep.c.CloseAndClean(nil)
	verifAssertD(tr.frees <= tr.mallocs, "no-more-frees-than-allocations", "send-queue")
	verifAssert(false, "witness")
}

// the size-aligned allocator as the engine's body allocator: after frames with
// an EMPTY payload (ping, pong, empty message — nothing was taken from the pool
// for them) the pool must still hand out sound buffers.
func verifHarness_C11_ws_empty_payloads_aligned_allocator() {
	verifPoolMode(1)
	alloc := mempool.NewAligned()
	ep := verifNewEndpoint(false, false, 0, alloc)
	kind := verifChoose("frame", 3)
	frame := [][]byte{
		{0x80 | byte(PingMessage), 0},
		{0x80 | byte(PongMessage), 0},
		{0x80 | byte(BinaryMessage), 0},
	}[kind]
	panics0 := verifPanicCount()
	err := ep.c.Parse(frame)
	verifAssertD(err == nil, "frame-accepted", "empty-payload")
	n := 1 + verifChoose("next_malloc", 32)
	p := alloc.Malloc(n)
	verifAssertD(verifPanicCount() == panics0, "no-panic-in-allocator", "after-empty-payload")
	verifAssertD(p != nil && len(*p) == n, "malloc-length", "after-empty-payload")
	verifAssert(false, "witness")
}

package websocket

import (
	"errors"
	"io"

	"github.com/lesismal/nbio/mempool"
	"github.com/lesismal/nbio/nbhttp"
)

// C15 — size limits.

const verifC15MaxPayload = 6

// verifClose1009 tells whether a close frame with status 1009 was written.
func verifClose1009(ep *verifEndpoint, from int) bool {
	for i := from; i < len(ep.fake.writes); i++ {
		f := verifDecodeFrame(ep.fake.writes[i])
		if f.ok && f.opcode == 8 && len(f.payload) >= 2 && f.payload[0] == 0x03 && f.payload[1] == 0xF1 {
			return true
		}
	}
	return false
}

// one data frame (or continuation) with a symbolic declared length against a
// symbolic limit; ml bytes of the message are already assembled.
func verifC15Declared(ml int, form int) { verifC15DeclaredC(ml, form, false) }

// compressed: the message in progress is a compressed one (RSV1 on its first
// frame); its continuation frames count against the limit like any others
func verifC15DeclaredC(ml int, form int, compressed bool) {
	limit := verifInt("limit", 1, 12)
	ep := verifNewEndpoint(false, compressed, 0, nil)
	ep.u.MessageLengthLimit = limit // commonFields is shared by pointer with the Conn
	c := ep.c
	op := byte(BinaryMessage)
	if ml > 0 {
		first := append([]byte{byte(BinaryMessage), byte(ml)}, make([]byte, ml)...)
		if compressed {
			first[0] |= 0x40
		}
		verifAssume(ml <= limit)
		err := c.Parse(first)
		verifAssert(err == nil && c.message != nil && len(*c.message) == ml, "setup-first-fragment")
		op = 0
	}
	fin := verifBool("fin")
	if compressed {
		fin = false // the garbage payload is never inflated: the message stays in progress
	}
	b0 := op
	if fin {
		b0 |= 0x80
	}
	stream := []byte{b0}
	var declared uint64
	topBit := false
	switch form {
	case 0:
		l7 := verifByte("len7")
		verifAssume(l7 <= 125)
		stream = append(stream, l7)
		declared = uint64(l7)
	case 1:
		ext := verifBytes("ext16", 2)
		stream = append(stream, 126, ext[0], ext[1])
		declared = uint64(ext[0])<<8 | uint64(ext[1])
	case 2:
		ext := verifBytes("ext64", 8)
		stream = append(stream, 127)
		stream = append(stream, ext...)
		for i := 0; i < 8; i++ {
			declared = declared<<8 | uint64(ext[i])
		}
		topBit = ext[0]&0x80 != 0
	}
	n := verifC15MaxPayload
	complete := declared <= verifC15MaxPayload
	if complete {
		n = verifConc(int(declared))
	}
	stream = append(stream, verifBytes("payload", n)...)
	nw := len(ep.fake.writes)
	err := c.Parse(stream)

	tooBig := declared > uint64(limit-ml) // exact: ml <= limit, no wrap-around possible here
	// never delivered, never buffered beyond the limit
	for _, m := range ep.msgs {
		verifAssertD(len(m.data) <= limit, "delivered-message-within-limit", "declared-length")
	}
	if c.message != nil {
		verifAssertD(len(*c.message) <= limit, "assembled-message-within-limit", "declared-length")
	}
	// a frame that would exceed the limit fails the connection with 1009
	// (a 64-bit length with the top bit set is malformed: any failure is accepted)
	verifAssertD(verifImplies(tooBig, err != nil), "too-large-frame-fails-connection", "")
	got1009 := verifClose1009(ep, nw)
	verifAssertD(verifImplies(verifAnd(tooBig, !topBit), got1009), "too-large-frame-answered-with-1009", "")
	// a frame that fits is not refused for its size
	verifAssertD(verifImplies(!tooBig, !errors.Is(err, ErrMessageTooLarge)), "fitting-frame-not-refused", "")
	if complete && err == nil && fin {
		verifReach("delivered")
		verifAssertD(len(ep.msgs) == 1 || n+ml == 0, "fitting-message-delivered", "")
	}
	if err != nil {
		verifReach("refused")
	}
}

func verifHarness_C15_declared_fresh_7bit()  { verifC15Declared(0, 0); verifAssert(false, "witness") }
func verifHarness_C15_declared_fresh_16bit() { verifC15Declared(0, 1); verifAssert(false, "witness") }
func verifHarness_C15_declared_fresh_64bit() { verifC15Declared(0, 2); verifAssert(false, "witness") }
func verifHarness_C15_declared_cont_7bit()   { verifC15Declared(2, 0); verifAssert(false, "witness") }
func verifHarness_C15_declared_cont_16bit()  { verifC15Declared(2, 1); verifAssert(false, "witness") }
func verifHarness_C15_declared_cont_64bit()  { verifC15Declared(2, 2); verifAssert(false, "witness") }
func verifHarness_C15_declared_cont_compressed_7bit() {
	verifC15DeclaredC(2, 0, true)
	verifAssert(false, "witness")
}
func verifHarness_C15_declared_cont_compressed_16bit() {
	verifC15DeclaredC(2, 1, true)
	verifAssert(false, "witness")
}
func verifHarness_C15_declared_cont_compressed_64bit() {
	verifC15DeclaredC(2, 2, true)
	verifAssert(false, "witness")
}

// verifAnyReader over-approximates every inflater: each Read returns a
// solver-chosen count and one of nil / io.EOF / another error.
type verifAnyReader struct {
	reads, maxReads int
	total           int
	sawOther        bool
}

var verifErrOther = errors.New("verif: decompressor error")

func (r *verifAnyReader) Read(p []byte) (int, error) {
	r.reads++
	n := verifConc(verifInt("read_n", 0, len(p)))
	for i := 0; i < n; i++ {
		p[i] = 'x'
	}
	r.total += n
	if r.reads >= r.maxReads {
		return n, io.EOF
	}
	switch verifChoose("read_err", 3) {
	case 1:
		return n, io.EOF
	case 2:
		r.sawOther = true
		return n, verifErrOther
	}
	if n == 0 {
		// io.Reader contract discourages (0, nil); a decompressor that makes
		// no progress is cut off here
		return 0, io.EOF
	}
	return n, nil
}
func (r *verifAnyReader) Close() error { return nil }

// readAll against an arbitrary reader, real pooled allocator with small buffers
func verifHarness_C15_readall() {
	verifBound("reads", 3)
	limit := verifConc(verifInt("limit", 1, 6))
	ep := verifNewEndpoint(false, true, 0, mempool.New(8, 1<<20))
	ep.u.MessageLengthLimit = limit
	size := 2 * (1 + verifChoose("compressed_len", 3))
	r := &verifAnyReader{maxReads: 3}
	pb, err := ep.c.readAll(r, size)
	if err == nil && pb != nil {
		verifReach("returned-message")
		verifAssertD(len(*pb) <= limit, "inflated-message-within-limit", "readAll")
	}
	if r.total > limit {
		verifReach("stream-longer-than-limit")
		verifAssertD(err != nil, "stream-past-limit-is-an-error", "readAll")
	}
	verifAssert(false, "witness")
}

// the same through Parse: a compressed message whose inflated size is arbitrary
func verifHarness_C15_inflate_through_parse() {
	verifBound("reads", 3)
	limit := verifConc(verifInt("limit", 1, 6))
	ep := verifNewEndpoint(false, true, 0, mempool.New(8, 1<<20))
	ep.u.MessageLengthLimit = limit
	r := &verifAnyReader{maxReads: 3}
	ep.u.WebsocketDecompressor = func(c *Conn, rd io.Reader) io.ReadCloser { return r }
	nw := len(ep.fake.writes)
	err := ep.c.Parse([]byte{0x80 | 0x40 | byte(TextMessage), 1, 0x00})
	for _, m := range ep.msgs {
		verifReach("delivered")
		verifAssertD(len(m.data) <= limit, "delivered-message-within-limit", "inflated")
	}
	if r.total > limit {
		verifAssertD(err != nil && len(ep.msgs) == 0, "inflated-past-limit-fails-connection", "")
		if !r.sawOther {
			verifAssertD(verifClose1009(ep, nw), "inflated-past-limit-answered-with-1009", "")
		}
	}
	verifAssert(false, "witness")
}

// control frames above 125 bytes are refused on send
func verifHarness_C15_control_send() {
	ep := verifNewEndpoint(verifChoose("role", 2) == 1, false, 0, nil)
	typ := []MessageType{PingMessage, PongMessage, CloseMessage}[verifChoose("type", 3)]
	n := []int{0, 1, 124, 125, 126, 127, 200}[verifChoose("len", 7)]
	data := verifBytes("data", n)
	// both public ways of sending a frame
	var err error
	entry := "WriteMessage"
	if verifChoose("entry_point", 2) == 1 {
		entry = "WriteFrame"
		err = ep.c.WriteFrame(typ, true, true, data)
	} else {
		err = ep.c.WriteMessage(typ, data)
	}
	if n > 125 {
		verifReach("refused")
		verifAssertD(errors.Is(err, ErrControlMessageTooBig) && len(ep.fake.writes) == 0, "oversized-control-frame-refused-on-send", entry)
	} else {
		verifAssertD(err == nil && len(ep.fake.writes) == 1, "fitting-control-frame-sent", "")
	}
	verifAssert(false, "witness")
}

// control frames above 125 bytes are refused on receive (whatever the opcode's FIN/len form)
func verifHarness_C15_control_recv() {
	ep := verifNewEndpoint(false, false, 0, nil)
	op := []byte{8, 9, 10}[verifChoose("op", 3)]
	ext := verifBytes("ext16", 2)
	declared := int(ext[0])<<8 | int(ext[1])
	stream := []byte{0x80 | op, 126, ext[0], ext[1]}
	n := 4
	if declared <= 4 {
		n = verifConc(declared)
	}
	stream = append(stream, make([]byte, n)...)
	nw := len(ep.fake.writes)
	err := ep.c.Parse(stream)
	verifAssertD(verifImplies(declared > 125, err != nil), "oversized-control-frame-refused-on-receive", "")
	verifAssertD(verifImplies(declared > 125, verifClose1009(ep, nw)), "oversized-control-frame-answered-with-1009", "")
	verifAssert(false, "witness")
}

// buffered unparsed input stays within the read limit
func verifHarness_C15_read_limit() {
	rl := verifInt("read_limit", 1, 8)
	ep := verifNewEndpoint(false, false, 0, nil)
	ep.eng.ReadLimit = rl
	// an incomplete binary frame of declared length 100, fed in three reads
	lens := []int{1 + verifChoose("r1", 4), 1 + verifChoose("r2", 4), 1 + verifChoose("r3", 4)}
	hdr := []byte{0x80 | byte(BinaryMessage), 100}
	maxRead := 0
	var lastErr error
	for i, l := range lens {
		var piece []byte
		if i == 0 {
			piece = append(append([]byte(nil), hdr...), make([]byte, l)...)
		} else {
			piece = make([]byte, l)
		}
		if len(piece) > maxRead {
			maxRead = len(piece)
		}
		lastErr = ep.c.Parse(piece)
		cached := 0
		if ep.c.bytesCached != nil {
			cached = len(*ep.c.bytesCached)
		}
		// the limit bounds accumulation; a single read larger than the limit
		// itself is bounded by the read buffer, not by ReadLimit
		verifAssertD(verifOr(cached <= rl, cached <= maxRead), "cached-input-within-read-limit", "")
		if lastErr != nil {
			verifReach("too-long")
			verifAssertD(errors.Is(lastErr, nbhttp.ErrTooLong), "read-limit-error", "")
			break
		}
	}
	verifAssert(false, "witness")
}

// a real bomb through the real inflater: N identical bytes compressed by the
// real codec on a sending endpoint (a handful of wire bytes), delivered to an
// endpoint whose MessageLengthLimit is the solver's.
func verifHarness_C15_real_inflate_bomb() {
	n := []int{40, 300, 3000}[verifChoose("inflated_len", 3)]
	snd := verifNewEndpoint(false, true, 0, nil)
	snd.c.enableWriteCompression = true
	snd.c.compressionLevel = 1
	payload := make([]byte, n)
	for i := range payload {
		payload[i] = 'z'
	}
	if err := snd.c.WriteMessage(BinaryMessage, payload); err != nil {
		verifFail("bomb-not-built", "")
	}
	wire := snd.fake.wire()
	verifNoteInt("wire_len", len(wire))
	// the limit is the solver's, in two windows: small, and around the inflated size
	var limit int
	if verifChoose("limit_window", 2) == 0 {
		limit = verifInt("limit", 1, 70)
	} else {
		limit = verifInt("limit", n-20, n+2)
	}
	// the buffer size the receiver inflates into does not follow the limit
	// (pooled buffers of 64 bytes, or of exactly the inflated size: a message that
	// fills its buffer exactly at the limit is still within the limit)
	bufSize := []int{64, n}[verifChoose("pool_buffer_size", 2)]
	rcv := verifNewEndpoint(true, true, 0, mempool.New(bufSize, 1<<20))
	rcv.u.MessageLengthLimit = limit
	nw := len(rcv.fake.writes)
	err := rcv.c.Parse(append([]byte(nil), wire...))
	if n > limit { // a branch: both sides are explored
		verifReach("bomb-over-limit")
		verifAssertD(len(rcv.msgs) == 0, "delivered-message-within-limit", "real-inflater")
		verifAssertD(err != nil, "inflated-past-limit-fails-connection", "real-inflater")
		verifAssertD(verifClose1009(rcv, nw), "inflated-past-limit-answered-with-1009", "real-inflater")
	} else {
		verifReach("bomb-within-limit")
		verifAssertD(err == nil && len(rcv.msgs) == 1 && len(rcv.msgs[0].data) == n, "message-within-limit-is-delivered", "real-inflater")
	}
	verifAssert(false, "witness")
}

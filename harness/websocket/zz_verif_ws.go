package websocket

// Shared harness infrastructure for the WebSocket properties (C12-C15, C11).

import (
	"net"
	"time"
	"unicode/utf8"

	"github.com/lesismal/nbio"
	"github.com/lesismal/nbio/mempool"
	"github.com/lesismal/nbio/nbhttp"
)

// verifFake is the underlying net.Conn of a websocket.Conn under test.
type verifFake struct {
	writes     [][]byte
	closed     bool
	closeCount int
	failAt     int // index of the Write call that fails (-1: never)
	nwrites    int
	deadlines  []time.Time
	yield      bool
}

type verifAddr struct{}

func (verifAddr) Network() string { return "fake" }
func (verifAddr) String() string  { return "fake" }

func (f *verifFake) Read(b []byte) (int, error) { return 0, net.ErrClosed }
func (f *verifFake) Write(b []byte) (int, error) {
	if f.yield {
		verifYield()
	}
	i := f.nwrites
	f.nwrites++
	if f.closed {
		return 0, net.ErrClosed
	}
	if i == f.failAt {
		return 0, net.ErrClosed
	}
	cp := make([]byte, len(b))
	copy(cp, b)
	f.writes = append(f.writes, cp)
	return len(b), nil
}
func (f *verifFake) Close() error {
	f.closed = true
	f.closeCount++
	return nil
}
func (f *verifFake) LocalAddr() net.Addr                { return verifAddr{} }
func (f *verifFake) RemoteAddr() net.Addr               { return verifAddr{} }
func (f *verifFake) SetDeadline(t time.Time) error      { return nil }
func (f *verifFake) SetReadDeadline(t time.Time) error  { f.deadlines = append(f.deadlines, t); return nil }
func (f *verifFake) SetWriteDeadline(t time.Time) error { return nil }

func (f *verifFake) wire() []byte {
	var w []byte
	for _, b := range f.writes {
		w = append(w, b...)
	}
	return w
}

func verifWsEngine(alloc mempool.Allocator) *nbhttp.Engine {
	e := &nbhttp.Engine{}
	e.Engine = nbio.NewEngine(nbio.Config{})
	e.CheckUtf8 = utf8.Valid
	e.BodyAllocator = alloc
	e.ReadLimit = 1 << 20
	e.MaxWebsocketFramePayloadSize = 1 << 15
	e.SyncCall = func(f func()) { f() }
	return e
}

type verifMsg struct {
	typ  MessageType
	data []byte
}

type verifEndpoint struct {
	c      *Conn
	fake   *verifFake
	eng    *nbhttp.Engine
	u      *Upgrader
	msgs   []verifMsg
	closes int
	closeE error
}

// verifNewEndpoint builds a real websocket.Conn over a fake net.Conn with an
// inline executor, the way Upgrade wires a poller-driven connection.
func verifNewEndpoint(client bool, compression bool, limit int, alloc mempool.Allocator) *verifEndpoint {
	ep := &verifEndpoint{fake: &verifFake{failAt: -1}}
	if alloc == nil {
		alloc = mempool.New(64, 1<<20)
	}
	ep.eng = verifWsEngine(alloc)
	DefaultEngine = ep.eng
	u := NewUpgrader()
	u.Engine = ep.eng
	u.KeepaliveTime = 0
	u.MessageLengthLimit = limit
	u.enableCompression = compression
	u.OnMessage(func(c *Conn, mt MessageType, data []byte) {
		cp := make([]byte, len(data))
		copy(cp, data)
		ep.msgs = append(ep.msgs, verifMsg{mt, cp})
	})
	u.OnClose(func(c *Conn, err error) {
		ep.closes++
		ep.closeE = err
	})
	ep.u = u
	ep.c = newConn(u, ep.fake, "", false, false, client)
	ep.c.Execute = func(f func()) bool { f(); return true }
	ep.c.releasePayload = true
	return ep
}

// verifFrame is a decoded frame header (reference decoder for bytes written
// by the endpoint under test).
type verifFrame struct {
	fin, rsv1   bool
	opcode      int
	masked      bool
	payload     []byte // unmasked
	headLen     int
	minimalLen  bool
	ok          bool
	total       int
}

func verifDecodeFrame(b []byte) verifFrame {
	var f verifFrame
	if len(b) < 2 {
		return f
	}
	f.fin = b[0]&0x80 != 0
	f.rsv1 = b[0]&0x40 != 0
	f.opcode = int(b[0] & 0x0f)
	f.masked = b[1]&0x80 != 0
	l7 := int(b[1] & 0x7f)
	pos := 2
	n := l7
	f.minimalLen = true
	if l7 == 126 {
		if len(b) < 4 {
			return f
		}
		n = int(b[2])<<8 | int(b[3])
		pos = 4
		f.minimalLen = n >= 126
	} else if l7 == 127 {
		if len(b) < 10 {
			return f
		}
		n = 0
		for i := 2; i < 10; i++ {
			n = n<<8 | int(b[i])
		}
		pos = 10
		f.minimalLen = n > 65535
	}
	var key []byte
	if f.masked {
		if len(b) < pos+4 {
			return f
		}
		key = b[pos : pos+4]
		pos += 4
	}
	if len(b) < pos+n {
		return f
	}
	f.headLen = pos
	f.payload = make([]byte, n)
	for i := 0; i < n; i++ {
		f.payload[i] = b[pos+i]
		if f.masked {
			f.payload[i] ^= key[i&3]
		}
	}
	f.total = pos + n
	f.ok = true
	return f
}

// verifUtf8Valid is an independent (RFC 3629 range-based) UTF-8 validity
// predicate written without branching so that it becomes one solver term.
func verifUtf8Valid(b []byte) bool {
	n := len(b)
	v := make([]bool, n+5)
	v[n] = true
	in := func(x byte, lo, hi byte) bool { return verifAnd(x >= lo, x <= hi) }
	for i := n - 1; i >= 0; i-- {
		c := b[i]
		ok := verifAnd(c < 0x80, v[i+1])
		if i+1 < n {
			c1 := b[i+1]
			ok = verifOr(ok, verifAnd(verifAnd(in(c, 0xC2, 0xDF), in(c1, 0x80, 0xBF)), v[i+2]))
		}
		if i+2 < n {
			c1, c2 := b[i+1], b[i+2]
			t := in(c2, 0x80, 0xBF)
			s := verifAnd(c == 0xE0, in(c1, 0xA0, 0xBF))
			s = verifOr(s, verifAnd(in(c, 0xE1, 0xEC), in(c1, 0x80, 0xBF)))
			s = verifOr(s, verifAnd(c == 0xED, in(c1, 0x80, 0x9F)))
			s = verifOr(s, verifAnd(in(c, 0xEE, 0xEF), in(c1, 0x80, 0xBF)))
			ok = verifOr(ok, verifAnd(verifAnd(s, t), v[i+3]))
		}
		if i+3 < n {
			c1, c2, c3 := b[i+1], b[i+2], b[i+3]
			t := verifAnd(in(c2, 0x80, 0xBF), in(c3, 0x80, 0xBF))
			s := verifAnd(c == 0xF0, in(c1, 0x90, 0xBF))
			s = verifOr(s, verifAnd(in(c, 0xF1, 0xF3), in(c1, 0x80, 0xBF)))
			s = verifOr(s, verifAnd(c == 0xF4, in(c1, 0x80, 0x8F)))
			ok = verifOr(ok, verifAnd(verifAnd(s, t), v[i+4]))
		}
		v[i] = ok
	}
	return v[0]
}

package websocket

import (
	"errors"
	"io"

	"github.com/lesismal/nbio/mempool"
)

// C12 — message round trip between two real endpoints (no compression).

// verifC12Payload builds a payload of length n: every byte symbolic up to 12
// bytes, otherwise the first and last 9 bytes symbolic and the middle concrete.
func verifC12Payload(n int, text bool) []byte {
	p := make([]byte, n)
	for i := range p {
		if n <= 12 || i < 9 || i >= n-9 {
			p[i] = verifByte("p")
			if text {
				verifAssume(p[i] < 0x80) // text payloads: ASCII (valid UTF-8) — see bounds
			}
		} else {
			p[i] = byte('a' + i%23)
		}
	}
	return p
}

func verifC12RoundTrip(lengths []int, frameLimits []int, cuts int) {
	clientSends := verifChoose("sender_is_client", 2) == 1
	text := verifChoose("text", 2) == 1
	n := lengths[verifChoose("len", len(lengths))]
	limit := frameLimits[verifChoose("frame_limit", len(frameLimits))]
	snd := verifNewEndpoint(clientSends, false, 0, nil)
	rcv := verifNewEndpoint(!clientSends, false, 0, nil)
	snd.eng.MaxWebsocketFramePayloadSize = limit
	payload := verifC12Payload(n, text)
	orig := append([]byte(nil), payload...)
	mt := BinaryMessage
	if text {
		mt = TextMessage
	}
	err := snd.c.WriteMessage(mt, payload)
	verifAssertD(err == nil, "write-succeeds", "")
	verifAssertD(verifEqBytes(payload, orig), "sender-does-not-modify-caller-buffer", "")
	wire := snd.fake.wire()

	// the sender's frames are well-formed (reference decoder)
	var assembled []byte
	pos, first, done := 0, true, false
	for pos < len(wire) {
		f := verifDecodeFrame(wire[pos:])
		verifAssertD(f.ok, "sender-frame-decodes", "")
		if !f.ok {
			break
		}
		verifAssertD(!done, "no-frame-after-final", "")
		verifAssertD(f.masked == clientSends, "mask-bit-matches-role", "")
		verifAssertD(f.minimalLen, "minimal-length-encoding", "")
		verifAssertD(!f.rsv1, "no-rsv1-without-compression", "")
		if first {
			verifAssertD(f.opcode == int(mt), "first-frame-carries-type", "")
		} else {
			verifAssertD(f.opcode == 0, "later-frames-are-continuations", "")
		}
		verifAssertD(len(f.payload) <= limit, "frame-within-payload-limit", "")
		assembled = append(assembled, f.payload...)
		done = f.fin
		first = false
		pos += f.total
	}
	verifAssertD(done, "final-frame-sent", "")
	verifAssertD(len(assembled) == n && verifEqBytes(assembled, orig), "frames-carry-the-payload", "")

	// deliver to the receiver in 1..cuts+1 reads
	rest := wire
	for k := 0; k < cuts && len(rest) > 1; k++ {
		cut := verifConc(verifInt("cut", 1, len(rest)))
		if cut == len(rest) {
			break
		}
		piece := append([]byte(nil), rest[:cut]...)
		perr := rcv.c.Parse(piece)
		verifAssertD(perr == nil, "receiver-accepts", "")
		for i := range piece {
			piece[i] = 0xEE // the read buffer is reused by the caller
		}
		rest = rest[cut:]
	}
	piece := append([]byte(nil), rest...)
	perr := rcv.c.Parse(piece)
	verifAssertD(perr == nil, "receiver-accepts", "")
	if n == 0 {
		verifAssertD(len(rcv.msgs) == 1, "delivered-exactly-once", "empty-message")
	} else {
		verifAssertD(len(rcv.msgs) == 1, "delivered-exactly-once", "")
	}
	if len(rcv.msgs) == 1 {
		verifReach("delivered")
		m := rcv.msgs[0]
		verifAssertD(m.typ == mt, "same-type", "")
		verifAssertD(len(m.data) == n && verifEqBytes(m.data, orig), "same-payload", "")
	}
	verifAssertD(!rcv.fake.closed && len(rcv.fake.writes) == 0, "receiver-stays-open-and-silent", "")
}

func verifHarness_C12_roundtrip_short_Q() {
	verifBound("payload_len_max", 9)
	verifBound("cuts", 1)
	verifC12RoundTrip([]int{0, 1, 2, 3, 4, 5, 6, 7, 8, 9}, []int{1 << 15, 3}, 1)
	verifAssert(false, "witness")
}

func verifHarness_C12_roundtrip_length_classes_Q() {
	verifC12RoundTrip([]int{125, 126, 127}, []int{1 << 15}, 1)
	verifAssert(false, "witness")
}

func verifHarness_C12_roundtrip_short_T() {
	verifBound("payload_len_max", 12)
	verifBound("cuts", 2)
	verifC12RoundTrip([]int{0, 1, 2, 3, 4, 5, 6, 7, 8, 9, 10, 11, 12}, []int{1 << 15, 1, 3, 4}, 2)
	verifAssert(false, "witness")
}

func verifHarness_C12_roundtrip_length_classes_T() {
	verifC12RoundTrip([]int{125, 126, 127, 128}, []int{1 << 15, 64, 126}, 1)
	verifAssert(false, "witness")
}

func verifHarness_C12_roundtrip_64k_T() {
	verifC12RoundTrip([]int{65535, 65536}, []int{1 << 20, 1 << 15}, 0)
	verifAssert(false, "witness")
}

// maskXOR is an involution for every key and content (lengths 0..70 cover the
// 64-byte, 8-byte and tail loops and every alignment of the tail)
func verifHarness_C12_maskxor_involution() {
	n := verifConc(verifInt("n", 0, 70))
	b := verifBytes("b", n)
	key := verifBytes("key", 4)
	orig := append([]byte(nil), b...)
	maskXOR(b, key)
	for i := 0; i < n; i++ {
		verifAssertD(b[i] == orig[i]^key[i&3], "mask-is-bytewise-xor-with-key", "")
	}
	maskXOR(b, key)
	verifAssertD(verifEqBytes(b, orig), "mask-twice-restores", "")
	verifAssert(false, "witness")
}

// ---- compression negotiated, with the codec replaced by an invertible stub
// (compress/flate itself is outside the claim): what is checked is nbio's own
// handling around it — RSV1 on the first frame only, fragmentation of the
// compressed payload, reassembly and decompression of the WHOLE message.

type verifStubCompressor struct{ w io.WriteCloser; started bool }

func (s *verifStubCompressor) Write(p []byte) (int, error) {
	out := make([]byte, 0, len(p)+1)
	if !s.started {
		s.started = true
		out = append(out, 'C')
	}
	for _, b := range p {
		out = append(out, b^0x55)
	}
	if _, err := s.w.Write(out); err != nil {
		return 0, err
	}
	return len(p), nil
}
func (s *verifStubCompressor) Close() error { return nil }

type verifStubDecompressor struct {
	r    io.Reader
	data []byte
	pos  int
	init bool
	bad  bool
}

func (s *verifStubDecompressor) Read(p []byte) (int, error) {
	if !s.init {
		s.init = true
		all, _ := io.ReadAll(s.r)
		tail := len(flateReaderTail)
		if len(all) < tail+1 || all[0] != 'C' {
			s.bad = true
			return 0, errors.New("verif: not a stub-compressed stream")
		}
		for _, b := range all[1 : len(all)-tail] {
			s.data = append(s.data, b^0x55)
		}
	}
	if s.pos >= len(s.data) {
		return 0, io.EOF
	}
	n := copy(p, s.data[s.pos:])
	s.pos += n
	return n, nil
}
func (s *verifStubDecompressor) Close() error { return nil }

func verifHarness_C12_roundtrip_compression_stub_codec() {
	verifBound("payload_len_max", 6)
	clientSends := verifChoose("sender_is_client", 2) == 1
	n := verifChoose("len", 7)
	limit := []int{1 << 15, 2, 3}[verifChoose("frame_limit", 3)]
	snd := verifNewEndpoint(clientSends, true, 0, nil)
	rcv := verifNewEndpoint(!clientSends, true, 0, nil)
	snd.eng.MaxWebsocketFramePayloadSize = limit
	snd.c.enableWriteCompression = true
	snd.u.WebsocketCompressor = func(c *Conn, w io.WriteCloser, level int) io.WriteCloser {
		return &verifStubCompressor{w: w}
	}
	rcv.u.WebsocketDecompressor = func(c *Conn, r io.Reader) io.ReadCloser {
		return &verifStubDecompressor{r: r}
	}
	payload := verifBytes("p", n)
	orig := append([]byte(nil), payload...)
	err := snd.c.WriteMessage(BinaryMessage, payload)
	verifAssertD(err == nil, "write-succeeds", "compressed")
	wire := snd.fake.wire()
	// RSV1 marks the first frame of a compressed message, and only that one
	pos, first := 0, true
	for pos < len(wire) {
		f := verifDecodeFrame(wire[pos:])
		verifAssertD(f.ok, "sender-frame-decodes", "compressed")
		if !f.ok {
			break
		}
		verifAssertD(f.rsv1 == first, "rsv1-on-first-frame-only", "")
		first = false
		pos += f.total
	}
	cut := verifConc(verifInt("cut", 1, len(wire)))
	perr := rcv.c.Parse(append([]byte(nil), wire[:cut]...))
	if perr == nil && cut < len(wire) {
		perr = rcv.c.Parse(append([]byte(nil), wire[cut:]...))
	}
	verifAssertD(perr == nil, "receiver-accepts", "compressed")
	verifAssertD(len(rcv.msgs) == 1, "delivered-exactly-once", "compressed")
	if len(rcv.msgs) == 1 {
		verifReach("delivered")
		verifAssertD(rcv.msgs[0].typ == BinaryMessage, "same-type", "compressed")
		verifAssertD(len(rcv.msgs[0].data) == n && verifEqBytes(rcv.msgs[0].data, orig), "same-payload", "compressed")
	}
	verifAssert(false, "witness")
}

// ---- the default codec's tail handling: compressWriter forwards flate's
// output through truncWriter, which must withhold exactly the last four bytes
// (the 00 00 ff ff sync marker) whatever the sizes of flate's writes.

type verifSink struct{ got []byte }

func (s *verifSink) Write(p []byte) (int, error) { s.got = append(s.got, p...); return len(p), nil }
func (s *verifSink) Close() error                { return nil }

func verifHarness_C12_truncwriter_any_segmentation() {
	verifBound("stream_len_max", 11)
	verifBound("writes", 4)
	total := verifConc(verifInt("len", 0, 11))
	in := verifBytes("b", total)
	sink := &verifSink{}
	tw := &truncWriter{w: sink}
	rest := in
	for k := 0; k < 3 && len(rest) > 0; k++ {
		n := verifConc(verifInt("seg", 0, len(rest)))
		_, err := tw.Write(append([]byte(nil), rest[:n]...))
		verifAssertD(err == nil, "truncwriter-write-succeeds", "")
		rest = rest[n:]
	}
	if len(rest) > 0 {
		_, err := tw.Write(append([]byte(nil), rest...))
		verifAssertD(err == nil, "truncwriter-write-succeeds", "")
	}
	keep := total - 4
	if keep < 0 {
		keep = 0
	}
	verifAssertD(len(sink.got) == keep && verifEqBytes(sink.got, in[:keep]), "all-but-the-last-four-bytes-forwarded", "")
	held := total - keep
	verifAssertD(tw.n == held && verifEqBytes(tw.p[:held], in[keep:]), "last-four-bytes-withheld", "")
	verifAssert(false, "witness")
}

// ---- the real codec (compress/flate) end to end, payloads concrete, every
// mask key, role, frame limit and cut decided by the solver.

func verifC12FlatePayload(k int) []byte {
	switch k {
	case 0:
		return []byte{}
	case 1:
		return []byte("a")
	case 2:
		return []byte("hello hello hello hello hello")
	case 3:
		b := make([]byte, 70)
		for i := range b {
			b[i] = byte(i*37 + 11)
		}
		return b
	}
	b := make([]byte, 300)
	for i := range b {
		b[i] = "abcabcabd"[i%9]
	}
	return b
}

func verifC12Flate(payloads []int, levels []int, limits []int) {
	clientSends := verifChoose("sender_is_client", 2) == 1
	pk := payloads[verifChoose("payload", len(payloads))]
	level := levels[verifChoose("level", len(levels))]
	limit := limits[verifChoose("frame_limit", len(limits))]
	snd := verifNewEndpoint(clientSends, true, 0, nil)
	rcv := verifNewEndpoint(!clientSends, true, 0, nil)
	snd.eng.MaxWebsocketFramePayloadSize = limit
	snd.c.enableWriteCompression = true
	snd.c.compressionLevel = level
	var payload []byte
	if pk >= 100 {
		// stored blocks (level 0) move the bytes without looking at them: any content
		payload = verifBytes("p", pk-100)
		for _, b := range payload {
			verifAssume(b < 0x80)
		}
	} else {
		payload = verifC12FlatePayload(pk)
	}
	orig := append([]byte(nil), payload...)
	mt := TextMessage
	if pk == 3 {
		mt = BinaryMessage // arbitrary bytes are not UTF-8
	}
	err := snd.c.WriteMessage(mt, payload)
	verifAssertD(err == nil, "write-succeeds", "flate")
	wire := snd.fake.wire()
	pos, first := 0, true
	for pos < len(wire) {
		f := verifDecodeFrame(wire[pos:])
		verifAssertD(f.ok, "sender-frame-decodes", "flate")
		if !f.ok {
			break
		}
		verifAssertD(f.rsv1 == first, "rsv1-on-first-frame-only", "flate")
		verifAssertD(len(f.payload) <= limit, "frame-within-payload-limit", "flate")
		first = false
		pos += f.total
	}
	maxCut := len(wire)
	if maxCut > 150 {
		maxCut = 150 // longer streams: the cut falls in the first 150 bytes
	}
	cut := verifConc(verifInt("cut", 1, maxCut))
	perr := rcv.c.Parse(append([]byte(nil), wire[:cut]...))
	if perr == nil && cut < len(wire) {
		perr = rcv.c.Parse(append([]byte(nil), wire[cut:]...))
	}
	verifAssertD(perr == nil, "receiver-accepts", "flate")
	verifAssertD(len(rcv.msgs) == 1, "delivered-exactly-once", "flate")
	if len(rcv.msgs) == 1 {
		verifReach("delivered-flate")
		verifAssertD(rcv.msgs[0].typ == mt, "same-type", "flate")
		verifAssertD(len(rcv.msgs[0].data) == len(orig) && verifEqBytes(rcv.msgs[0].data, orig), "same-payload", "flate")
	}
	verifAssertD(!rcv.fake.closed && len(rcv.fake.writes) == 0, "receiver-stays-open-and-silent", "flate")
}

func verifHarness_C12_roundtrip_flate() {
	verifBound("payloads", 4)
	verifC12Flate([]int{0, 1, 2, 3}, []int{1, -2}, []int{1 << 15, 3})
	verifAssert(false, "witness")
}

func verifHarness_C12_roundtrip_flate_stored_any_content() {
	verifBound("payload_len_max", 6)
	verifC12Flate([]int{100, 101, 102, 106}, []int{0}, []int{1 << 15, 4})
	verifAssert(false, "witness")
}

func verifHarness_C12_roundtrip_flate_levels_T() {
	verifBound("payloads", 5)
	verifC12Flate([]int{0, 1, 2, 3, 4}, []int{-2, 0, 1, 6, 9}, []int{1 << 15, 7})
	verifAssert(false, "witness")
}

// ---- two connections inflating at the same time. The codec objects come from
// package-level pools shared by all connections (sync.Pool may hand out any
// free object); an allocator that yields makes every buffer request inside the
// inflate loop a scheduling point.

type verifYieldAlloc struct{ mempool.Allocator }

func (a verifYieldAlloc) Malloc(n int) *[]byte { verifYield(); return a.Allocator.Malloc(n) }
func (a verifYieldAlloc) Append(p *[]byte, more ...byte) *[]byte {
	verifYield()
	return a.Allocator.Append(p, more...)
}
func (a verifYieldAlloc) Realloc(p *[]byte, n int) *[]byte { verifYield(); return a.Allocator.Realloc(p, n) }

func verifHarness_C12_concurrent_inflate_two_connections() {
	verifBound("connections", 3)
	verifBound("preemptions", 1)
	verifPoolMode(1)
	wireOf := func(payload []byte) []byte {
		snd := verifNewEndpoint(false, true, 0, nil)
		snd.c.enableWriteCompression = true
		snd.c.compressionLevel = 1
		if snd.c.WriteMessage(BinaryMessage, payload) != nil {
			verifFail("write-succeeds", "concurrent-inflate")
		}
		return snd.fake.wire()
	}
	p0 := []byte("warm-up warm-up warm-up")
	p1 := []byte("first first first first first first first first")
	p2 := []byte("SECOND second SECOND second SECOND second SECOND")
	w0, w1, w2 := wireOf(p0), wireOf(p1), wireOf(p2)
	small := func() mempool.Allocator { return verifYieldAlloc{mempool.New(8, 1<<20)} }
	// a first connection receives a message and is done
	r0 := verifNewEndpoint(true, true, 0, nil)
	if err := r0.c.Parse(append([]byte(nil), w0...)); err != nil || len(r0.msgs) != 1 {
		verifFail("warm-up-delivered", "")
		return
	}
	// two more connections inflate concurrently
	r1 := verifNewEndpoint(true, true, 0, small())
	r2 := verifNewEndpoint(true, true, 0, small())
	verifSched(true, 1)
	var e1, e2 error
	verifGo(func() { e1 = r1.c.Parse(append([]byte(nil), w1...)) })
	verifGo(func() { e2 = r2.c.Parse(append([]byte(nil), w2...)) })
	verifJoin()
	verifAssertD(e1 == nil && e2 == nil, "receiver-accepts", "concurrent-inflate")
	verifAssertD(len(r1.msgs) == 1 && len(r2.msgs) == 1, "delivered-exactly-once", "concurrent-inflate")
	if len(r1.msgs) == 1 && len(r2.msgs) == 1 {
		verifAssertD(string(r1.msgs[0].data) == string(p1) && string(r2.msgs[0].data) == string(p2), "same-payload", "concurrent-inflate")
	}
	verifAssert(false, "witness")
}

// ---- a control frame between the fragments of a message (RFC 6455 5.4): the
// sender's frames of a fragmented message with a ping (payload symbolic) put
// between two of them at a solver-chosen boundary; the message must still be
// delivered once and intact, the ping answered by a pong with the same payload.
func verifHarness_C12_ping_between_fragments() {
	verifBound("payload_len_max", 7)
	clientSends := verifChoose("sender_is_client", 2) == 1
	compressed := verifChoose("compressed", 2) == 1
	n := 4 + verifChoose("len", 4)
	snd := verifNewEndpoint(clientSends, compressed, 0, nil)
	rcv := verifNewEndpoint(!clientSends, compressed, 0, nil)
	snd.eng.MaxWebsocketFramePayloadSize = 3
	if compressed {
		snd.c.enableWriteCompression = true
		snd.u.WebsocketCompressor = func(c *Conn, w io.WriteCloser, level int) io.WriteCloser {
			return &verifStubCompressor{w: w}
		}
		rcv.u.WebsocketDecompressor = func(c *Conn, r io.Reader) io.ReadCloser {
			return &verifStubDecompressor{r: r}
		}
	}
	payload := verifBytes("p", n)
	orig := append([]byte(nil), payload...)
	if snd.c.WriteMessage(BinaryMessage, payload) != nil {
		verifFail("write-succeeds", "ping-between-fragments")
		return
	}
	msgWire := snd.fake.wire()
	// frame boundaries of the message
	var bounds []int
	for pos := 0; pos < len(msgWire); {
		f := verifDecodeFrame(msgWire[pos:])
		if !f.ok {
			verifFail("sender-frame-decodes", "ping-between-fragments")
			return
		}
		pos += f.total
		bounds = append(bounds, pos)
	}
	verifAssertD(len(bounds) >= 2, "message-is-fragmented", "")
	// the ping, written by the same sender
	before := len(snd.fake.writes)
	pingData := verifBytes("ping", verifChoose("ping_len", 3))
	if snd.c.WriteMessage(PingMessage, pingData) != nil {
		verifFail("write-succeeds", "ping")
		return
	}
	var ping []byte
	for _, w := range snd.fake.writes[before:] {
		ping = append(ping, w...)
	}
	at := bounds[verifChoose("ping_after_frame", len(bounds)-1)]
	wire := append(append(append([]byte(nil), msgWire[:at]...), ping...), msgWire[at:]...)
	cut := verifConc(verifInt("cut", 1, len(wire)))
	perr := rcv.c.Parse(append([]byte(nil), wire[:cut]...))
	if perr == nil && cut < len(wire) {
		perr = rcv.c.Parse(append([]byte(nil), wire[cut:]...))
	}
	verifAssertD(perr == nil, "receiver-accepts", "ping-between-fragments")
	verifAssertD(len(rcv.msgs) == 1, "delivered-exactly-once", "ping-between-fragments")
	if len(rcv.msgs) == 1 {
		verifReach("delivered-around-ping")
		verifAssertD(rcv.msgs[0].typ == BinaryMessage, "same-type", "ping-between-fragments")
		verifAssertD(len(rcv.msgs[0].data) == n && verifEqBytes(rcv.msgs[0].data, orig), "same-payload", "ping-between-fragments")
	}
	// exactly one pong, same payload
	pongs := 0
	for _, w := range rcv.fake.writes {
		f := verifDecodeFrame(w)
		if f.ok && f.opcode == int(PongMessage) {
			pongs++
			verifAssertD(len(f.payload) == len(pingData) && verifEqBytes(f.payload, pingData), "pong-carries-ping-payload", "between-fragments")
		}
	}
	verifAssertD(pongs == 1, "ping-answered-by-one-pong", "between-fragments")
	verifAssertD(!rcv.fake.closed, "receiver-stays-open", "ping-between-fragments")
	verifAssert(false, "witness")
}

// ---- two messages on one connection (per-message state — opcode, assembled
// buffer, compression flag — must be reset in between): text then binary, or
// compressed then uncompressed, fragmented or not, one cut anywhere.
func verifHarness_C12_two_messages_in_order() {
	verifBound("payload_len_max", 4)
	clientSends := verifChoose("sender_is_client", 2) == 1
	compressed := verifChoose("compression_negotiated", 2) == 1
	snd := verifNewEndpoint(clientSends, compressed, 0, nil)
	rcv := verifNewEndpoint(!clientSends, compressed, 0, nil)
	snd.eng.MaxWebsocketFramePayloadSize = []int{1 << 15, 2}[verifChoose("frame_limit", 2)]
	if compressed {
		snd.u.WebsocketCompressor = func(c *Conn, w io.WriteCloser, level int) io.WriteCloser {
			return &verifStubCompressor{w: w}
		}
		rcv.u.WebsocketDecompressor = func(c *Conn, r io.Reader) io.ReadCloser {
			return &verifStubDecompressor{r: r}
		}
	}
	n1, n2 := verifChoose("len1", 5), verifChoose("len2", 5)
	p1, p2 := verifBytes("p1", n1), verifBytes("p2", n2)
	for _, b := range p1 {
		verifAssume(b < 0x80) // the first message is text
	}
	o1, o2 := append([]byte(nil), p1...), append([]byte(nil), p2...)
	// the first message is compressed when compression is negotiated, the second never is
	snd.c.enableWriteCompression = compressed
	if snd.c.WriteMessage(TextMessage, p1) != nil {
		verifFail("write-succeeds", "first")
		return
	}
	snd.c.enableWriteCompression = false
	if snd.c.WriteMessage(BinaryMessage, p2) != nil {
		verifFail("write-succeeds", "second")
		return
	}
	wire := snd.fake.wire()
	cut := verifConc(verifInt("cut", 1, len(wire)))
	perr := rcv.c.Parse(append([]byte(nil), wire[:cut]...))
	if perr == nil && cut < len(wire) {
		perr = rcv.c.Parse(append([]byte(nil), wire[cut:]...))
	}
	verifAssertD(perr == nil, "receiver-accepts", "two-messages")
	verifAssertD(len(rcv.msgs) == 2, "delivered-exactly-once", "two-messages")
	if len(rcv.msgs) == 2 {
		verifReach("both-delivered")
		verifAssertD(rcv.msgs[0].typ == TextMessage && rcv.msgs[1].typ == BinaryMessage, "same-type", "two-messages-in-order")
		verifAssertD(len(rcv.msgs[0].data) == n1 && verifEqBytes(rcv.msgs[0].data, o1), "same-payload", "first-of-two")
		verifAssertD(len(rcv.msgs[1].data) == n2 && verifEqBytes(rcv.msgs[1].data, o2), "same-payload", "second-of-two")
	}
	verifAssert(false, "witness")
}

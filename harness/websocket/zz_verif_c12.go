package websocket

import (
	"errors"
	"io"
)

// C12 — message round trip between two real endpoints (no compression).

// verifC12Payload builds a payload of length n: every byte symbolic up to 12
// bytes, otherwise the first and last 9 bytes symbolic and the middle concrete.
func verifC12Payload(n int, text bool) []byte {
	p := make([]byte, n)
	for i := range p {
		if n <= 12 || i < 9 || i >= n-9 {
			p[i] = verifByte("p")
			if text {
				verifAssume(p[i] < 0x80) // text payloads: ASCII (valid UTF-8) — see bounds
			}
		} else {
			p[i] = byte('a' + i%23)
		}
	}
	return p
}

func verifC12RoundTrip(lengths []int, frameLimits []int, cuts int) {
	clientSends := verifChoose("sender_is_client", 2) == 1
	text := verifChoose("text", 2) == 1
	n := lengths[verifChoose("len", len(lengths))]
	limit := frameLimits[verifChoose("frame_limit", len(frameLimits))]
	snd := verifNewEndpoint(clientSends, false, 0, nil)
	rcv := verifNewEndpoint(!clientSends, false, 0, nil)
	snd.eng.MaxWebsocketFramePayloadSize = limit
	payload := verifC12Payload(n, text)
	orig := append([]byte(nil), payload...)
	mt := BinaryMessage
	if text {
		mt = TextMessage
	}
	err := snd.c.WriteMessage(mt, payload)
	verifAssertD(err == nil, "write-succeeds", "")
	verifAssertD(verifEqBytes(payload, orig), "sender-does-not-modify-caller-buffer", "")
	wire := snd.fake.wire()

	// the sender's frames are well-formed (reference decoder)
	var assembled []byte
	pos, first, done := 0, true, false
	for pos < len(wire) {
		f := verifDecodeFrame(wire[pos:])
		verifAssertD(f.ok, "sender-frame-decodes", "")
		if !f.ok {
			break
		}
		verifAssertD(!done, "no-frame-after-final", "")
		verifAssertD(f.masked == clientSends, "mask-bit-matches-role", "")
		verifAssertD(f.minimalLen, "minimal-length-encoding", "")
		verifAssertD(!f.rsv1, "no-rsv1-without-compression", "")
		if first {
			verifAssertD(f.opcode == int(mt), "first-frame-carries-type", "")
		} else {
			verifAssertD(f.opcode == 0, "later-frames-are-continuations", "")
		}
		verifAssertD(len(f.payload) <= limit, "frame-within-payload-limit", "")
		assembled = append(assembled, f.payload...)
		done = f.fin
		first = false
		pos += f.total
	}
	verifAssertD(done, "final-frame-sent", "")
	verifAssertD(len(assembled) == n && verifEqBytes(assembled, orig), "frames-carry-the-payload", "")

	// deliver to the receiver in 1..cuts+1 reads
	rest := wire
	for k := 0; k < cuts && len(rest) > 1; k++ {
		cut := verifConc(verifInt("cut", 1, len(rest)))
		if cut == len(rest) {
			break
		}
		piece := append([]byte(nil), rest[:cut]...)
		perr := rcv.c.Parse(piece)
		verifAssertD(perr == nil, "receiver-accepts", "")
		for i := range piece {
			piece[i] = 0xEE // the read buffer is reused by the caller
		}
		rest = rest[cut:]
	}
	piece := append([]byte(nil), rest...)
	perr := rcv.c.Parse(piece)
	verifAssertD(perr == nil, "receiver-accepts", "")
	if n == 0 {
		verifAssertD(len(rcv.msgs) == 1, "delivered-exactly-once", "empty-message")
	} else {
		verifAssertD(len(rcv.msgs) == 1, "delivered-exactly-once", "")
	}
	if len(rcv.msgs) == 1 {
		verifReach("delivered")
		m := rcv.msgs[0]
		verifAssertD(m.typ == mt, "same-type", "")
		verifAssertD(len(m.data) == n && verifEqBytes(m.data, orig), "same-payload", "")
	}
	verifAssertD(!rcv.fake.closed && len(rcv.fake.writes) == 0, "receiver-stays-open-and-silent", "")
}

func verifHarness_C12_roundtrip_short_Q() {
	verifBound("payload_len_max", 9)
	verifBound("cuts", 1)
	verifC12RoundTrip([]int{0, 1, 2, 3, 4, 5, 6, 7, 8, 9}, []int{1 << 15, 3}, 1)
	verifAssert(false, "witness")
}

func verifHarness_C12_roundtrip_length_classes_Q() {
	verifC12RoundTrip([]int{125, 126, 127}, []int{1 << 15}, 1)
	verifAssert(false, "witness")
}

func verifHarness_C12_roundtrip_short_T() {
	verifBound("payload_len_max", 12)
	verifBound("cuts", 2)
	verifC12RoundTrip([]int{0, 1, 2, 3, 4, 5, 6, 7, 8, 9, 10, 11, 12}, []int{1 << 15, 1, 3, 4}, 2)
	verifAssert(false, "witness")
}

func verifHarness_C12_roundtrip_length_classes_T() {
	verifC12RoundTrip([]int{125, 126, 127, 128}, []int{1 << 15, 64, 126}, 1)
	verifAssert(false, "witness")
}

func verifHarness_C12_roundtrip_64k_T() {
	verifC12RoundTrip([]int{65535, 65536}, []int{1 << 20, 1 << 15}, 0)
	verifAssert(false, "witness")
}

// maskXOR is an involution for every key and content (lengths 0..70 cover the
// 64-byte, 8-byte and tail loops and every alignment of the tail)
func verifHarness_C12_maskxor_involution() {
	n := verifConc(verifInt("n", 0, 70))
	b := verifBytes("b", n)
	key := verifBytes("key", 4)
	orig := append([]byte(nil), b...)
	maskXOR(b, key)
	for i := 0; i < n; i++ {
		verifAssertD(b[i] == orig[i]^key[i&3], "mask-is-bytewise-xor-with-key", "")
	}
	maskXOR(b, key)
	verifAssertD(verifEqBytes(b, orig), "mask-twice-restores", "")
	verifAssert(false, "witness")
}

// ---- compression negotiated, with the codec replaced by an invertible stub
// (compress/flate itself is outside the claim): what is checked is nbio's own
// handling around it — RSV1 on the first frame only, fragmentation of the
// compressed payload, reassembly and decompression of the WHOLE message.

type verifStubCompressor struct{ w io.WriteCloser; started bool }

func (s *verifStubCompressor) Write(p []byte) (int, error) {
	out := make([]byte, 0, len(p)+1)
	if !s.started {
		s.started = true
		out = append(out, 'C')
	}
	for _, b := range p {
		out = append(out, b^0x55)
	}
	if _, err := s.w.Write(out); err != nil {
		return 0, err
	}
	return len(p), nil
}
func (s *verifStubCompressor) Close() error { return nil }

type verifStubDecompressor struct {
	r    io.Reader
	data []byte
	pos  int
	init bool
	bad  bool
}

func (s *verifStubDecompressor) Read(p []byte) (int, error) {
	if !s.init {
		s.init = true
		all, _ := io.ReadAll(s.r)
		tail := len(flateReaderTail)
		if len(all) < tail+1 || all[0] != 'C' {
			s.bad = true
			return 0, errors.New("verif: not a stub-compressed stream")
		}
		for _, b := range all[1 : len(all)-tail] {
			s.data = append(s.data, b^0x55)
		}
	}
	if s.pos >= len(s.data) {
		return 0, io.EOF
	}
	n := copy(p, s.data[s.pos:])
	s.pos += n
	return n, nil
}
func (s *verifStubDecompressor) Close() error { return nil }

func verifHarness_C12_roundtrip_compression_stub_codec() {
	verifBound("payload_len_max", 6)
	clientSends := verifChoose("sender_is_client", 2) == 1
	n := verifChoose("len", 7)
	limit := []int{1 << 15, 2, 3}[verifChoose("frame_limit", 3)]
	snd := verifNewEndpoint(clientSends, true, 0, nil)
	rcv := verifNewEndpoint(!clientSends, true, 0, nil)
	snd.eng.MaxWebsocketFramePayloadSize = limit
	snd.c.enableWriteCompression = true
	snd.u.WebsocketCompressor = func(c *Conn, w io.WriteCloser, level int) io.WriteCloser {
		return &verifStubCompressor{w: w}
	}
	rcv.u.WebsocketDecompressor = func(c *Conn, r io.Reader) io.ReadCloser {
		return &verifStubDecompressor{r: r}
	}
	payload := verifBytes("p", n)
	orig := append([]byte(nil), payload...)
	err := snd.c.WriteMessage(BinaryMessage, payload)
	verifAssertD(err == nil, "write-succeeds", "compressed")
	wire := snd.fake.wire()
	// RSV1 marks the first frame of a compressed message, and only that one
	pos, first := 0, true
	for pos < len(wire) {
		f := verifDecodeFrame(wire[pos:])
		verifAssertD(f.ok, "sender-frame-decodes", "compressed")
		if !f.ok {
			break
		}
		verifAssertD(f.rsv1 == first, "rsv1-on-first-frame-only", "")
		first = false
		pos += f.total
	}
	cut := verifConc(verifInt("cut", 1, len(wire)))
	perr := rcv.c.Parse(append([]byte(nil), wire[:cut]...))
	if perr == nil && cut < len(wire) {
		perr = rcv.c.Parse(append([]byte(nil), wire[cut:]...))
	}
	verifAssertD(perr == nil, "receiver-accepts", "compressed")
	verifAssertD(len(rcv.msgs) == 1, "delivered-exactly-once", "compressed")
	if len(rcv.msgs) == 1 {
		verifReach("delivered")
		verifAssertD(rcv.msgs[0].typ == BinaryMessage, "same-type", "compressed")
		verifAssertD(len(rcv.msgs[0].data) == n && verifEqBytes(rcv.msgs[0].data, orig), "same-payload", "compressed")
	}
	verifAssert(false, "witness")
}

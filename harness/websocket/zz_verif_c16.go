package websocket

import (
	"net/http"
	"net/url"
	"time"

	"github.com/lesismal/nbio/mempool"
)

// C16 (WebSocket keep-alive site): every received message renews the read
// deadline to now + KeepaliveTime.
func verifHarness_C16_ws_keepalive_renewal() {
	ep := verifNewEndpoint(false, false, 0, nil)
	ka := verifInt("keepalive_ns", 1, 1000000000)
	ep.u.KeepaliveTime = time.Duration(ka)
	kind := verifChoose("frame", 3)
	frame := [][]byte{
		{0x80 | byte(TextMessage), 1, 'a'},
		{0x80 | byte(PingMessage), 0},
		{0x80 | byte(PongMessage), 0},
	}[kind]
	before := verifNow()
	err := ep.c.Parse(frame)
	after := verifNow()
	verifAssertD(err == nil, "frame-accepted", "")
	verifAssertD(len(ep.fake.deadlines) == 1, "keepalive-deadline-renewed-after-message", "")
	if len(ep.fake.deadlines) == 1 {
		d := ep.fake.deadlines[0].UnixNano()
		verifAssertD(d >= before+int64(ka), "keepalive-deadline-not-early", "")
		verifAssertD(d <= after+int64(ka), "keepalive-deadline-is-now-plus-keepalive", "")
	}
	verifAssert(false, "witness")
}

// the hand-over at the upgrade: the HTTP engine armed its keep-alive read
// deadline on the connection; after the real Upgrade that deadline is either
// replaced by the WebSocket keep-alive (now + KeepaliveTime) or, with
// KeepaliveTime == 0, CLEARED — no stale HTTP timer may close the WebSocket.
func verifHarness_C16_ws_upgrade_takes_over_the_read_deadline() {
	eng := verifWsEngine(mempool.New(64, 1<<20))
	DefaultEngine = eng
	u := NewUpgrader()
	u.Engine = eng
	noKeepalive := verifChoose("keepalive_zero", 2) == 1
	ka := verifInt("keepalive_ns", 1, 1000000000)
	if noKeepalive {
		u.KeepaliveTime = 0
	} else {
		u.KeepaliveTime = time.Duration(ka)
	}
	conn := &verifReadConn{}
	conn.failAt = -1
	// what the HTTP engine did at accept
	_ = conn.SetReadDeadline(time.Unix(0, verifNow()).Add(120 * time.Second))
	w := &verifHijackWriter{conn: conn, hdr: http.Header{}}
	r := &http.Request{Method: "GET", Header: http.Header{}, URL: &url.URL{Path: "/ws"}, Host: "h"}
	r.Header.Set("Connection", "Upgrade")
	r.Header.Set("Upgrade", "websocket")
	r.Header.Set("Sec-Websocket-Version", "13")
	r.Header.Set("Sec-Websocket-Key", "dGhlIHNhbXBsZSBub25jZQ==")
	verifSched(true, 1)
	before := verifNow()
	wsc, err := u.Upgrade(w, r, nil)
	after := verifNow()
	verifAssertD(err == nil && wsc != nil, "upgrade-succeeds", "deadline")
	if err != nil {
		return
	}
	n := len(conn.deadlines)
	verifAssertD(n >= 2, "upgrade-sets-the-read-deadline", "")
	if n >= 2 {
		last := conn.deadlines[n-1]
		if noKeepalive {
			verifAssertD(last.IsZero(), "no-stale-timer", "http-keepalive-deadline-cleared-at-upgrade")
		} else {
			d := last.UnixNano()
			verifAssertD(d >= before+int64(ka), "keepalive-deadline-not-early", "upgrade")
			verifAssertD(d <= after+int64(ka), "keepalive-deadline-is-now-plus-keepalive", "upgrade")
		}
	}
	conn.closed = true
	verifJoin()
	verifAssert(false, "witness")
}

package websocket

import "time"

// C16 (WebSocket keep-alive site): every received message renews the read
// deadline to now + KeepaliveTime.
func verifHarness_C16_ws_keepalive_renewal() {
	ep := verifNewEndpoint(false, false, 0, nil)
	ka := verifInt("keepalive_ns", 1, 1000000000)
	ep.u.KeepaliveTime = time.Duration(ka)
	kind := verifChoose("frame", 3)
	frame := [][]byte{
		{0x80 | byte(TextMessage), 1, 'a'},
		{0x80 | byte(PingMessage), 0},
		{0x80 | byte(PongMessage), 0},
	}[kind]
	before := verifNow()
	err := ep.c.Parse(frame)
	after := verifNow()
	verifAssertD(err == nil, "frame-accepted", "")
	verifAssertD(len(ep.fake.deadlines) == 1, "keepalive-deadline-renewed-after-message", "")
	if len(ep.fake.deadlines) == 1 {
		d := ep.fake.deadlines[0].UnixNano()
		verifAssertD(d >= before+int64(ka), "keepalive-deadline-not-early", "")
		verifAssertD(d <= after+int64(ka), "keepalive-deadline-is-now-plus-keepalive", "")
	}
	verifAssert(false, "witness")
}

package mempool

// C20 — allocator contracts. A program of k operations over up to 3 live
// buffers; operation, operand and size class are solver/engine choices, buffer
// contents are symbolic bytes, sync.Pool.Get may return any previously freed
// buffer or a new one (nondet pool model).

type verifC20Buf struct {
	p      *[]byte
	shadow []byte // expected contents
	live   bool
}

func verifC20Overlap(a, b []byte) bool {
	if cap(a) == 0 || cap(b) == 0 {
		return false
	}
	if verifBufID(a) != verifBufID(b) {
		return verifNativeOverlap(a, b)
	}
	ao, bo := verifBufOff(a), verifBufOff(b)
	return ao < bo+cap(b) && bo < ao+cap(a)
}

func verifC20Check(bufs []*verifC20Buf, what string) {
	for i, b := range bufs {
		if !b.live {
			continue
		}
		verifAssertD(len(*b.p) == len(b.shadow), "length", what)
		if len(*b.p) == len(b.shadow) {
			verifAssertD(verifEqBytes(*b.p, b.shadow), "contents-preserved", what)
		}
		for j := i + 1; j < len(bufs); j++ {
			if bufs[j].live {
				verifAssertD(!verifC20Overlap(*b.p, *bufs[j].p), "live-buffers-disjoint", what)
			}
		}
	}
}

func verifC20Fill(b *verifC20Buf, tag string) {
	n := len(*b.p)
	fresh := verifBytes(tag, n)
	copy(*b.p, fresh)
	b.shadow = append([]byte(nil), fresh...)
}

func verifC20Program(a Allocator, steps int, sizes []int, name string) {
	var bufs []*verifC20Buf
	nlive := func() int {
		n := 0
		for _, b := range bufs {
			if b.live {
				n++
			}
		}
		return n
	}
	pick := func() *verifC20Buf {
		var live []*verifC20Buf
		for _, b := range bufs {
			if b.live {
				live = append(live, b)
			}
		}
		return live[verifChoose("buf", len(live))]
	}
	for s := 0; s < steps; s++ {
		nops := 1
		if nlive() > 0 {
			nops = 5
		}
		op := verifChoose("op", nops)
		if nlive() >= 3 && op == 0 {
			op = 4
		}
		switch op {
		case 0: // Malloc
			n := sizes[verifChoose("size", len(sizes))]
			p := a.Malloc(n)
			verifAssertD(p != nil && len(*p) == n, "malloc-length", name)
			b := &verifC20Buf{p: p, live: true}
			verifC20Fill(b, "fill")
			bufs = append(bufs, b)
			verifC20Check(bufs, name+":Malloc")
		case 1: // Append
			b := pick()
			n := sizes[verifChoose("size", len(sizes))]
			more := verifBytes("more", n)
			b.p = a.Append(b.p, more...)
			b.shadow = append(b.shadow, more...)
			verifC20Check(bufs, name+":Append")
		case 2: // AppendString
			b := pick()
			n := sizes[verifChoose("size", len(sizes))]
			more := verifBytes("mores", n)
			b.p = a.AppendString(b.p, string(more))
			b.shadow = append(b.shadow, more...)
			verifC20Check(bufs, name+":AppendString")
		case 3: // Realloc
			b := pick()
			n := sizes[verifChoose("size", len(sizes))]
			old := len(b.shadow)
			b.p = a.Realloc(b.p, n)
			verifAssertD(len(*b.p) == n, "realloc-length", name)
			if n <= old {
				b.shadow = b.shadow[:n]
			} else if len(*b.p) == n {
				// the extension is unspecified: adopt what is there
				b.shadow = append(b.shadow, (*b.p)[old:n]...)
			}
			verifC20Check(bufs, name+":Realloc")
		case 4: // Free
			b := pick()
			b.live = false
			a.Free(b.p)
			verifC20Check(bufs, name+":Free")
		}
	}
	if nlive() >= 2 {
		verifReach("two-live-at-end")
	}
}

func verifHarness_C20_mempool_small() {
	verifPoolMode(1)
	verifBound("ops", 3)
	verifBound("live_buffers", 3)
	a := New(8, 16)
	verifC20Program(a, 3, []int{0, 1, 7, 8, 9, 16, 17}, "MemPool(8,16)")
	verifAssert(false, "witness")
}

func verifHarness_C20_aligned() {
	verifPoolMode(1)
	verifBound("ops", 3)
	a := NewAligned()
	verifC20Program(a, 3, []int{0, 1, 31, 32, 33, 64, 65}, "Aligned")
	verifAssert(false, "witness")
}

func verifHarness_C20_std() {
	verifBound("ops", 3)
	a := NewSTD()
	verifC20Program(a, 3, []int{0, 1, 7, 8, 9}, "Std")
	verifAssert(false, "witness")
}


// grow-then-free-then-malloc: a buffer that grew through Append/AppendString/
// Realloc goes back to the pool and the pool serves later requests from it
func verifC20GrowFreeMalloc(a Allocator, sizes []int, name string) {
	verifPoolMode(1)
	s1 := sizes[verifChoose("malloc", len(sizes))]
	s2 := sizes[verifChoose("grow", len(sizes))]
	s3 := sizes[verifChoose("malloc2", len(sizes))]
	p := a.Malloc(s1)
	verifAssertD(len(*p) == s1, "malloc-length", name)
	old := verifBytes("old", s1)
	copy(*p, old)
	more := verifBytes("more", s2)
	switch verifChoose("grow_op", 3) {
	case 0:
		p = a.Append(p, more...)
	case 1:
		p = a.AppendString(p, string(more))
	default:
		p = a.Realloc(p, s1+s2)
		if len(*p) == s1+s2 {
			copy((*p)[s1:], more)
		}
	}
	want := append(append([]byte(nil), old...), more...)
	verifAssertD(len(*p) == len(want) && verifEqBytes(*p, want), "contents-preserved", name)
	keep := a.Malloc(3)
	copy(*keep, []byte("abc"))
	a.Free(p)
	q := a.Malloc(s3)
	verifAssertD(q != nil && len(*q) == s3, "malloc-length", name+":after-free")
	if q != nil {
		for i := range *q {
			(*q)[i] = 0xAA
		}
		verifAssertD(!verifC20Overlap(*q, *keep), "live-buffers-disjoint", name)
	}
	verifAssertD(string(*keep) == "abc", "contents-preserved", name+":bystander")
}

func verifHarness_C20_grow_free_malloc_aligned() {
	verifC20GrowFreeMalloc(NewAligned(), []int{1, 31, 32, 33, 64, 65, 96, 97, 128, 129}, "Aligned")
	verifAssert(false, "witness")
}

func verifHarness_C20_grow_free_malloc_mempool() {
	verifC20GrowFreeMalloc(New(8, 16), []int{1, 7, 8, 9, 15, 16, 17}, "MemPool(8,16)")
	verifAssert(false, "witness")
}

// the same with the sizes as solver integers over whole ranges (not hand-picked
// classes): the allocator's own comparisons split the ranges, the solver finds
// the bucket boundaries and enumerates every feasible length.
func verifC20GrowFreeMallocRanges(a Allocator, max1, max2, max3 int, name string) {
	verifPoolMode(1)
	s1 := verifInt("malloc", 0, max1)
	s2 := verifInt("grow", 0, max2)
	s3 := verifInt("malloc2", 0, max3)
	p := a.Malloc(s1)
	verifAssertD(len(*p) == s1, "malloc-length", name)
	n1 := len(*p)
	old := verifBytes("old", n1)
	copy(*p, old)
	n2 := verifConc(s2)
	more := verifBytes("more", n2)
	switch verifChoose("grow_op", 3) {
	case 0:
		p = a.Append(p, more...)
	case 1:
		p = a.AppendString(p, string(more))
	default:
		p = a.Realloc(p, n1+n2)
		if len(*p) == n1+n2 {
			copy((*p)[n1:], more)
		}
	}
	want := append(append([]byte(nil), old...), more...)
	verifAssertD(len(*p) == len(want) && verifEqBytes(*p, want), "contents-preserved", name)
	keep := a.Malloc(3)
	copy(*keep, []byte("abc"))
	a.Free(p)
	q := a.Malloc(s3)
	verifAssertD(q != nil && len(*q) == s3, "malloc-length", name+":after-free")
	if q != nil {
		for i := range *q {
			(*q)[i] = 0xAA
		}
		verifAssertD(!verifC20Overlap(*q, *keep), "live-buffers-disjoint", name)
	}
	verifAssertD(string(*keep) == "abc", "contents-preserved", name+":bystander")
}

func verifHarness_C20_size_ranges_mempool() {
	verifBound("size_max", 18)
	verifC20GrowFreeMallocRanges(New(8, 16), 18, 10, 18, "MemPool(8,16)")
	verifAssert(false, "witness")
}

func verifHarness_C20_size_ranges_aligned_Q() {
	verifBound("size_max", 34)
	verifC20GrowFreeMallocRanges(NewAligned(), 34, 2, 34, "Aligned")
	verifAssert(false, "witness")
}

func verifHarness_C20_size_ranges_aligned_T() {
	verifBound("size_max", 70)
	verifC20GrowFreeMallocRanges(NewAligned(), 70, 3, 70, "Aligned")
	verifAssert(false, "witness")
}

// One step from an arbitrary valid pool state (instead of the history that
// would build it): the pool holds up to two free buffers of any capacity a
// history can produce and ANY stale length and garbage contents — Free accepts
// a buffer at whatever length its last owner left it — then one Malloc and one
// grow operation with solver-chosen sizes must honour their contracts.
func verifHarness_C20_step_from_arbitrary_pool_state() {
	verifBound("pooled_free_buffers", 1)
	verifBound("size_max", 10)
	verifPoolMode(1)
	mp := New(8, 16).(*MemPool)
	{
		c := []int{8, 16}[verifChoose("pooled_cap", 2)]
		l := []int{0, 2, c}[verifChoose("pooled_len", 3)]
		b := make([]byte, c)
		for j := range b {
			b[j] = 0xEE
		}
		b = b[:l]
		mp.pool.Put(&b)
	}
	s1 := verifInt("malloc", 0, 10)
	p := mp.Malloc(s1)
	verifAssertD(len(*p) == s1, "malloc-length", "from-arbitrary-pool")
	n1 := len(*p)
	old := verifBytes("old", n1)
	copy(*p, old)
	s2 := verifConc(verifInt("grow", 0, 5))
	more := verifBytes("more", s2)
	switch verifChoose("grow_op", 4) {
	case 0:
		p = mp.Append(p, more...)
	case 1:
		p = mp.AppendString(p, string(more))
	case 2:
		p = mp.Realloc(p, n1+s2)
		verifAssertD(len(*p) == n1+s2, "realloc-length", "from-arbitrary-pool")
		if len(*p) == n1+s2 {
			copy((*p)[n1:], more)
		}
	default: // shrink
		more = nil
		k := verifConc(verifInt("shrink_to", 0, n1))
		p = mp.Realloc(p, k)
		verifAssertD(len(*p) == k, "realloc-length", "shrink")
		old = old[:k]
	}
	want := append(append([]byte(nil), old...), more...)
	verifAssertD(len(*p) == len(want) && verifEqBytes(*p, want), "contents-preserved", "from-arbitrary-pool")
	q := mp.Malloc([]int{0, 9}[verifChoose("malloc2", 2)])
	for i := range *q {
		(*q)[i] = 0xAA
	}
	verifAssertD(!verifC20Overlap(*q, *p), "live-buffers-disjoint", "from-arbitrary-pool")
	verifAssertD(len(*p) == len(want) && verifEqBytes(*p, want), "contents-preserved", "bystander-of-malloc")
	verifAssert(false, "witness")
}

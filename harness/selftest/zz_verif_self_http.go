package nbhttp

// Repository test inputs (extracted from parser_test.go at selftest time into
// verifSelfParserInputs) and std helpers, run under gosym and natively.

import (
	"bytes"
	"net/http"
	"strconv"
	"strings"
	"unicode/utf8"
)

func verifSelfLog(r *verifRecorder, err error) string {
	var b strings.Builder
	for _, e := range r.log {
		b.WriteString(strconv.Itoa(e.kind))
		b.WriteByte(':')
		b.WriteString(e.s1)
		b.WriteByte('=')
		b.WriteString(e.s2)
		b.WriteByte('#')
		b.WriteString(strconv.Itoa(e.n))
		b.WriteByte('[')
		b.Write(e.body)
		b.WriteString("];")
	}
	if err != nil {
		b.WriteString("ERR")
	}
	return b.String()
}

func verifSelf_parser_repo_inputs() string {
	var b strings.Builder
	e := verifHTTPEngine()
	for i, in := range verifSelfParserInputs {
		client := verifSelfParserClient[i]
		whole, err1, _ := verifFeed(client, e, []byte(in))
		var pieces [][]byte
		for j := 0; j < len(in); j++ {
			pieces = append(pieces, []byte(in[j:j+1]))
		}
		split, err2, _ := verifFeed(client, e, pieces...)
		w, s := verifSelfLog(whole, err1), verifSelfLog(split, err2)
		b.WriteString(strconv.Itoa(i) + ">" + w + "\n")
		if w != s {
			b.WriteString("SPLIT-DIFFERS:" + s + "\n")
		}
	}
	return b.String()
}

func verifSelfRand(state *uint32) uint32 {
	*state = *state*1664525 + 1013904223
	return *state >> 8
}

func verifSelf_std_functions() string {
	var b strings.Builder
	st := uint32(12345)
	alphabet := "abzAZ09-_ :\t\r~\x7f\xc3\xa9\xe2\x82\xac\xf0\x9f\x98\x80\xff\xc0"
	h := uint32(2166136261)
	mix := func(s string) {
		for i := 0; i < len(s); i++ {
			h = (h ^ uint32(s[i])) * 16777619
		}
		h = (h ^ 0xff) * 16777619
	}
	for i := 0; i < 300; i++ {
		n := int(verifSelfRand(&st) % 9)
		var sb []byte
		for j := 0; j < n; j++ {
			sb = append(sb, alphabet[verifSelfRand(&st)%uint32(len(alphabet))])
		}
		s := string(sb)
		mix(http.CanonicalHeaderKey(s))
		mix(strings.ToUpper(s))
		mix(strings.ToLower(s))
		if utf8.Valid(sb) {
			mix("v")
		}
		d := "-+0123456789abcdefx "
		var nb []byte
		for j := 0; j < 1+int(verifSelfRand(&st)%20); j++ {
			nb = append(nb, d[verifSelfRand(&st)%uint32(len(d))])
		}
		v, err := strconv.ParseInt(string(nb), 10, 63)
		mix(strconv.FormatInt(v, 10))
		if err != nil {
			mix("e")
		}
		v, err = strconv.ParseInt(string(nb), 16, 63)
		mix(strconv.FormatInt(v, 16))
		if err != nil {
			mix("e")
		}
		u, err := strconv.ParseUint(string(nb), 10, 63)
		mix(strconv.FormatUint(u, 10))
		if err != nil {
			mix("e")
		}
		maj, min, ok := http.ParseHTTPVersion("HTTP/" + string(nb[:1]) + "." + string(nb[len(nb)-1:]))
		mix(strconv.Itoa(maj*10 + min))
		if ok {
			mix("ok")
		}
	}
	b.WriteString(strconv.FormatUint(uint64(h), 16))
	return b.String()
}

// net/http's package initialiser is not interpreted as a whole; the globals
// its header writer reads (a strings.Replacer, a sync.Pool with a New function)
// are initialised on first read from the backward slice of the initialiser.
// The bytes written must agree with the native run. (The request line goes
// through fmt, which gosym does not interpret, so it is not compared.)
func verifSelf_header_write_lazy_globals() string {
	var b strings.Builder
	for i := 0; i < 3; i++ {
		h := http.Header{"X-B": {"2", "3"}, "X-A": {"line\nbreak\rcr"}, "User-Agent": {"verif" + strconv.Itoa(i)}, "Content-Length": {"9"}, "A b": {"invalid name"}}
		var w bytes.Buffer
		err := h.WriteSubset(&w, map[string]bool{"X-B": i == 1})
		b.WriteString(strconv.Quote(w.String()))
		if err != nil {
			b.WriteString(" ERR")
		}
		b.WriteByte('\n')
	}
	b.WriteString(http.StatusText(404) + http.CanonicalHeaderKey("x-forwarded-for"))
	return b.String()
}

package mempool

// Interpreter conformance corpus: each function returns a digest string; the
// selftest runs it under gosym and natively and compares the strings.

import (
	"errors"
	"strconv"
	"strings"
	"unicode/utf8"
)

type verifSelfShape interface {
	Area() int
	Name() string
}
type verifSelfRect struct{ w, h int }
type verifSelfSq struct {
	verifSelfRect
	tag string
}

func (r verifSelfRect) Area() int    { return r.w * r.h }
func (r verifSelfRect) Name() string { return "rect" }
func (s *verifSelfSq) Name() string  { return "sq:" + s.tag }

type verifSelfErr struct{ code int }

func (e *verifSelfErr) Error() string { return "E" + strconv.Itoa(e.code) }

func verifSelfI(b *strings.Builder, vs ...int64) {
	for _, v := range vs {
		b.WriteString(strconv.FormatInt(v, 10))
		b.WriteByte(',')
	}
}

func verifSelf_integers() string {
	var b strings.Builder
	var i8 int8 = 127
	i8++
	var u8 uint8 = 0
	u8--
	var i32 int32 = -2147483648
	var u16 uint16 = 0xFFFF
	u16 += 2
	x := int64(-7)
	verifSelfI(&b, int64(i8), int64(u8), int64(-i32), int64(i32/-1), int64(u16), x/2, x%2, x>>1, int64(uint64(x)>>60), x<<62, int64(int8(x<<5)))
	var sh uint = 70
	u200, u100, u40000 := uint8(200), uint8(100), uint16(40000)
	verifSelfI(&b, int64(uint32(1)<<(sh-40)), int64(int32(-8)>>sh), int64(u200+u100), int64(int16(u40000)), int64(^uint8(5)), 7&^5, int64(uint64(1<<63)/3%1000))
	y := 1000000007
	verifSelfI(&b, int64(y*y), int64(uint32(y)*uint32(y)), int64(int32(y)*int32(y)))
	return b.String()
}

func verifSelf_slices() string {
	var b strings.Builder
	a := make([]int, 3, 8)
	c := append(a, 4)
	d := append(a, 5)
	verifSelfI(&b, int64(c[3]), int64(d[3]), int64(len(c)), int64(cap(c)))
	e := a[1:2:2]
	e = append(e, 9)
	e[0] = 7
	verifSelfI(&b, int64(a[1]), int64(e[0]), int64(len(e)))
	bs := []byte("hello world")
	n := copy(bs[2:], bs)
	verifSelfI(&b, int64(n))
	b.Write(bs)
	var nilS []byte
	nilS = append(nilS, "ab"...)
	b.Write(nilS)
	arr := [4]int{1, 2, 3, 4}
	arr2 := arr
	arr2[0] = 9
	p := &arr
	sl := p[1:3]
	sl[0] = 8
	verifSelfI(&b, int64(arr[0]), int64(arr2[0]), int64(arr[1]), int64(len(sl)), int64(cap(sl)))
	m := [][]int{{1}, {2, 3}}
	for i, r := range m {
		for _, v := range r {
			verifSelfI(&b, int64(i*10+v))
		}
	}
	return b.String()
}

func verifSelf_maps_closures_defer() (out string) {
	var b strings.Builder
	m := map[string]int{}
	m["a"]++
	m["b"] += 2
	delete(m, "a")
	_, ok := m["a"]
	verifSelfI(&b, int64(len(m)), int64(m["b"]), int64(m["zz"]))
	if ok {
		b.WriteString("BAD")
	}
	type key struct {
		x int
		s string
	}
	mk := map[key][]int{}
	mk[key{1, "q"}] = append(mk[key{1, "q"}], 5)
	mk[key{1, "q"}] = append(mk[key{1, "q"}], 6)
	verifSelfI(&b, int64(len(mk[key{1, "q"}])), int64(len(mk[key{2, "q"}])))
	var fs []func() int
	for i := 0; i < 3; i++ {
		i := i
		fs = append(fs, func() int { i += 10; return i })
	}
	verifSelfI(&b, int64(fs[0]()), int64(fs[0]()), int64(fs[2]()))
	func() {
		defer func() {
			r := recover()
			b.WriteString("rec:")
			if e, ok := r.(error); ok {
				b.WriteString(strconv.Itoa(len(e.Error()) / 100))
			}
			if s, ok := r.(string); ok {
				b.WriteString(s)
			}
		}()
		defer b.WriteString("d1;")
		var z []int
		_ = z[3]
	}()
	func() {
		defer func() { b.WriteString("|" + recover().(string)) }()
		panic("boom")
	}()
	defer func() { out = b.String() + ";named" }()
	return "unused"
}

func verifSelf_interfaces() string {
	var b strings.Builder
	shapes := []verifSelfShape{verifSelfRect{2, 3}, &verifSelfSq{verifSelfRect{4, 4}, "t"}}
	for _, s := range shapes {
		b.WriteString(s.Name())
		verifSelfI(&b, int64(s.Area()))
		switch v := s.(type) {
		case verifSelfRect:
			verifSelfI(&b, int64(v.w))
		case *verifSelfSq:
			b.WriteString(v.tag)
		}
	}
	f := shapes[0].Area
	g := (*verifSelfSq).Name
	verifSelfI(&b, int64(f()))
	b.WriteString(g(shapes[1].(*verifSelfSq)))
	var e error = &verifSelfErr{7}
	w := errors.New("x")
	var target *verifSelfErr
	verifSelfI(&b, int64(len(e.Error())))
	if errors.As(e, &target) && target.code == 7 && !errors.Is(e, w) && errors.Is(w, w) {
		b.WriteString("as-ok")
	}
	var ns verifSelfShape
	if ns == nil {
		b.WriteString("nil-iface")
	}
	_, isSq := shapes[0].(*verifSelfSq)
	if !isSq {
		b.WriteString("!sq")
	}
	return b.String()
}

func verifSelf_strings_and_control() string {
	var b strings.Builder
	s := "héllo, wörld"
	for i, r := range s {
		if r > 127 {
			verifSelfI(&b, int64(i), int64(r))
		}
	}
	verifSelfI(&b, int64(len(s)), int64(utf8.RuneCountInString(s)), int64(strings.Index(s, "wö")), int64(strings.Count(s, "l")))
	b.WriteString(strings.ToUpper(s[:2]) + strings.Repeat("ab", 2) + strings.TrimSpace("  x ") + strings.Join(strings.Split("a,b,,c", ","), "|"))
	if "abc" < "abd" && "b" > "abc" && s[1:3] == "é" {
		b.WriteString("cmp")
	}
outer:
	for i := 0; i < 4; i++ {
		for j := 0; j < 4; j++ {
			switch {
			case j == 2:
				continue outer
			case i == 3:
				break outer
			}
			verifSelfI(&b, int64(i*4+j))
		}
	}
	ch := make(chan int, 3)
	ch <- 1
	ch <- 2
	close(ch)
	for v := range ch {
		verifSelfI(&b, int64(v))
	}
	select {
	case v, ok := <-ch:
		verifSelfI(&b, int64(v))
		if !ok {
			b.WriteString("closed")
		}
	default:
		b.WriteString("default")
	}
	x := []byte{1, 2, 3, 4, 5, 6, 7, 8}
	u := uint64(x[0]) | uint64(x[1])<<8 | uint64(x[7])<<56
	verifSelfI(&b, int64(u>>56), int64(u&0xffff))
	return b.String()
}

// the allocator loops of mempool_test.go (lengths only, as the test checks)
func verifSelf_mempool_loops() string {
	var b strings.Builder
	for _, a := range []Allocator{New(64, 1024), NewAligned(), NewSTD()} {
		sum := 0
		for i := 0; i < 40; i += 3 {
			p := a.Malloc(i)
			sum += len(*p)
			p = a.Realloc(p, i*2+1)
			sum += len(*p)
			p = a.Append(p, byte(i), byte(i+1))
			sum += len(*p) + int((*p)[len(*p)-1])
			p = a.AppendString(p, "xyz")
			sum += len(*p)
			a.Free(p)
		}
		verifSelfI(&b, int64(sum))
	}
	return b.String()
}

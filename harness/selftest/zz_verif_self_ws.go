package websocket

import "strings"

// the nine rows of Test_validFrame
func verifSelf_validFrame_rows() string {
	type row struct {
		op                    MessageType
		fin, r1, r2, r3, expf bool
	}
	rows := []row{
		{TextMessage, true, false, false, false, false},
		{BinaryMessage, true, false, false, false, false},
		{BinaryMessage, true, false, false, false, false},
		{MessageType(3), true, false, false, false, false},
		{BinaryMessage, true, true, false, false, false},
		{BinaryMessage, true, false, true, false, false},
		{BinaryMessage, true, false, false, true, false},
		{CloseMessage, false, false, false, false, false},
		{TextMessage, false, false, false, false, true},
	}
	var b strings.Builder
	ep := verifNewEndpoint(false, false, 0, nil)
	for _, r := range rows {
		if ep.c.validFrame(r.op, r.fin, r.r1, r.r2, r.r3, r.expf) != nil {
			b.WriteByte('E')
		} else {
			b.WriteByte('.')
		}
	}
	// and a frame round trip on concrete data
	snd := verifNewEndpoint(true, false, 0, nil)
	_ = snd.c.WriteMessage(TextMessage, []byte("hello websocket"))
	_ = ep.c.Parse(snd.fake.wire())
	for _, m := range ep.msgs {
		b.WriteString("|" + string(m.data))
	}
	return b.String()
}
